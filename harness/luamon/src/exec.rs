//! Statement execution.
use crate::ast::*;
use crate::errors::*;
use crate::interp::*;
use crate::numfmt::Numeral;
use crate::value::*;

impl<'c> Interp<'c> {
    #[inline]
    pub(crate) fn get_local(&self, a: &Act, slot: u16) -> Value {
        match &self.stack[a.base + slot as usize] {
            Value::Cell(c) => self.cells[*c as usize].clone(),
            v => v.clone(),
        }
    }
    #[inline]
    pub(crate) fn set_local(&mut self, a: &Act, slot: u16, v: Value) {
        let pos = a.base + slot as usize;
        if let Value::Cell(c) = self.stack[pos] {
            self.cells[c as usize] = v;
        } else {
            self.stack[pos] = v;
        }
    }
    /// Evaluate an expression list onto the stack (last expression multi-expanded); optionally adjust to `want`.
    pub(crate) fn eval_list(&mut self, exprs: &'c [Expr], a: &Act, want: Option<usize>) -> R<usize> {
        let start = self.stack.len();
        let n = exprs.len();
        for (i, e) in exprs.iter().enumerate() {
            if i + 1 == n {
                self.eval_multi(e, a)?;
            } else {
                let v = self.eval(e, a)?;
                self.stack.push(v);
            }
        }
        if let Some(w) = want {
            self.stack.resize(start + w, Value::Nil);
        }
        Ok(self.stack.len() - start)
    }
    pub(crate) fn exec_block(&mut self, b: &'c Block, a: &Act) -> R<Flow> {
        let stmts = &b.stmts;
        let mut pc = 0usize;
        while pc < stmts.len() {
            match self.exec_stmt(&stmts[pc], a)? {
                Flow::Normal => pc += 1,
                Flow::Goto(label) => match b.labels.iter().find(|l| l.0 == label) {
                    Some(l) => pc = l.1 as usize,
                    None => return Ok(Flow::Goto(label)),
                },
                other => return Ok(other),
            }
        }
        Ok(Flow::Normal)
    }
    fn assign_to(&mut self, t: &'c Expr, v: Value, a: &Act, line: u32) -> R<()> {
        match t {
            Expr::Local(l) => {
                if l.mon && self.opts.monitor_v {
                    self.mon_write_local(a, l);
                }
                self.set_local(a, l.slot, v);
            }
            Expr::Upval(u) => {
                let c = self.upvals[a.up_start + u.idx as usize];
                if u.mon && self.opts.monitor_v {
                    self.mon_write_cell(a, c);
                }
                self.cells[c as usize] = v;
            }
            Expr::Global(g) => {
                if g.mon && self.opts.monitor_v {
                    self.mon_write_global(a, g, &v);
                }
                self.globals[g.gid as usize] = v;
            }
            _ => return self.rt_error(line, "cannot assign".to_string()),
        }
        Ok(())
    }
    fn exec_assign(&mut self, targets: &'c [Expr], exprs: &'c [Expr], a: &Act, line: u32) -> R<()> {
        if targets.len() == 1 && exprs.len() == 1 {
            if let Expr::Index(ix) = &targets[0] {
                let obj = self.eval(&ix.obj, a)?;
                let key = self.eval(&ix.key, a)?;
                let v = self.eval(&exprs[0], a)?;
                return self.set_index(obj, key, v, ix, a);
            }
            let v = self.eval(&exprs[0], a)?;
            return self.assign_to(&targets[0], v, a, line);
        }
        let top = self.stack.len();
        for t in targets {
            if let Expr::Index(ix) = t {
                let obj = self.eval(&ix.obj, a)?;
                self.stack.push(obj);
                let key = self.eval(&ix.key, a)?;
                self.stack.push(key);
            }
        }
        let vstart = self.stack.len();
        self.eval_list(exprs, a, Some(targets.len()))?;
        // assign right to left, as the reference implementation does
        let mut pre = vstart;
        for (i, t) in targets.iter().enumerate().rev() {
            let v = std::mem::replace(&mut self.stack[vstart + i], Value::Nil);
            if let Expr::Index(ix) = t {
                let key = std::mem::replace(&mut self.stack[pre - 1], Value::Nil);
                let obj = std::mem::replace(&mut self.stack[pre - 2], Value::Nil);
                pre -= 2;
                self.set_index(obj, key, v, ix, a)?;
            } else {
                self.assign_to(t, v, a, line)?;
            }
        }
        self.stack.truncate(top);
        Ok(())
    }
    fn for_num(&mut self, v: &Value) -> Option<f64> {
        match v {
            Value::Int(i) => Some(*i as f64),
            Value::Num(f) => Some(*f),
            Value::Str(s) => match crate::numfmt::str2number(s) {
                Some(Numeral::Int(i)) => Some(i as f64),
                Some(Numeral::Flt(f)) => Some(f),
                None => None,
            },
            _ => None,
        }
    }
    /// forlimit (lvm.c): clip a limit to an integer; None when the limit is not a number.
    fn for_limit(&mut self, lim: &Value, step: i64) -> Option<(i64, bool)> {
        if let Value::Int(i) = lim {
            return Some((*i, false));
        }
        let n = self.for_num(lim)?;
        if let Value::Str(s) = lim {
            if let Some(Numeral::Int(i)) = crate::numfmt::str2number(s) {
                return Some((i, false));
            }
        }
        let r = if step < 0 { n.ceil() } else { n.floor() };
        if let Some(i) = f64_to_i64_exact(r) {
            return Some((i, false));
        }
        if n > 0.0 {
            Some((i64::MAX, step < 0))
        } else {
            // also covers NaN
            Some((i64::MIN, step >= 0))
        }
    }
    fn exec_numfor(&mut self, var: &LocalDecl, start: &'c Expr, limit: &'c Expr, step: &'c Option<Expr>, body: &'c Block, a: &Act, line: u32) -> R<Flow> {
        let v0 = self.eval(start, a)?;
        let v1 = self.eval(limit, a)?;
        let v2 = match step {
            Some(s) => self.eval(s, a)?,
            None => Value::Int(1),
        };
        let slot = a.base + var.slot as usize;
        let mon = var.mon && self.opts.monitor_v;
        if let (Value::Int(i0), Value::Int(st)) = (&v0, &v2) {
            if let Some((lim, stopnow)) = self.for_limit(&v1, *st) {
                let st = *st;
                let mut idx = if stopnow { 0 } else { *i0 };
                idx = idx.wrapping_sub(st);
                loop {
                    idx = idx.wrapping_add(st);
                    let go = if 0 < st { idx <= lim } else { lim <= idx };
                    if !go {
                        return Ok(Flow::Normal);
                    }
                    self.step()?;
                    self.stack[slot] = Value::Int(idx);
                    if mon {
                        self.mon_decl(a, var, false);
                    }
                    match self.exec_block(body, a)? {
                        Flow::Normal => {}
                        Flow::Break => return Ok(Flow::Normal),
                        other => return Ok(other),
                    }
                }
            }
        }
        let flimit = match self.for_num(&v1) {
            Some(f) => f,
            None => return self.rt_error(line, "'for' limit must be a number".into()),
        };
        let fstep = match self.for_num(&v2) {
            Some(f) => f,
            None => return self.rt_error(line, "'for' step must be a number".into()),
        };
        let finit = match self.for_num(&v0) {
            Some(f) => f,
            None => return self.rt_error(line, "'for' initial value must be a number".into()),
        };
        let mut idx = finit - fstep;
        loop {
            idx += fstep;
            let go = if 0.0 < fstep { idx <= flimit } else { flimit <= idx };
            if !go {
                return Ok(Flow::Normal);
            }
            self.step()?;
            self.stack[slot] = Value::Num(idx);
            if mon {
                self.mon_decl(a, var, false);
            }
            match self.exec_block(body, a)? {
                Flow::Normal => {}
                Flow::Break => return Ok(Flow::Normal),
                other => return Ok(other),
            }
        }
    }
    fn exec_genfor(&mut self, vars: &'c [LocalDecl], hidden: u16, exprs: &'c [Expr], body: &'c Block, a: &Act, line: u32) -> R<Flow> {
        let top = self.stack.len();
        self.eval_list(exprs, a, Some(3))?;
        let hb = a.base + hidden as usize;
        for i in (0..3).rev() {
            let v = self.stack.pop().unwrap_or(Value::Nil);
            self.stack[hb + i] = v;
        }
        self.stack.truncate(top);
        loop {
            self.step()?;
            let pos = self.stack.len();
            let (f, s, c) = (self.stack[hb].clone(), self.stack[hb + 1].clone(), self.stack[hb + 2].clone());
            self.stack.push(f);
            self.stack.push(s);
            self.stack.push(c);
            self.callee_expr = None;
            self.for_iter = true;
            let r = self.call_at(pos, 2, line);
            self.for_iter = false;
            r?;
            self.stack.resize(pos + vars.len().max(1), Value::Nil);
            if self.stack[pos].is_nil() {
                self.stack.truncate(pos);
                return Ok(Flow::Normal);
            }
            self.stack[hb + 2] = self.stack[pos].clone();
            for (i, d) in vars.iter().enumerate() {
                let v = std::mem::replace(&mut self.stack[pos + i], Value::Nil);
                self.stack[a.base + d.slot as usize] = v;
                if d.mon && self.opts.monitor_v {
                    self.mon_decl(a, d, false);
                }
            }
            self.stack.truncate(pos);
            match self.exec_block(body, a)? {
                Flow::Normal => {}
                Flow::Break => return Ok(Flow::Normal),
                other => return Ok(other),
            }
        }
    }
    pub(crate) fn exec_stmt(&mut self, s: &'c Stmt, a: &Act) -> R<Flow> {
        self.steps += 1;
        if self.steps > self.max_steps {
            return budget("steps");
        }
        match s {
            Stmt::Local { decls, exprs, line, defined_nil } => {
                self.cur_line = *line;
                if decls.len() == 1 && exprs.len() == 1 {
                    let v = self.eval(&exprs[0], a)?;
                    let d = &decls[0];
                    self.stack[a.base + d.slot as usize] = v;
                    if d.mon && self.opts.monitor_v {
                        self.mon_decl(a, d, *defined_nil);
                    }
                } else {
                    let top = self.stack.len();
                    self.eval_list(exprs, a, Some(decls.len()))?;
                    for (i, d) in decls.iter().enumerate() {
                        let v = std::mem::replace(&mut self.stack[top + i], Value::Nil);
                        self.stack[a.base + d.slot as usize] = v;
                        if d.mon && self.opts.monitor_v {
                            self.mon_decl(a, d, false);
                        }
                    }
                    self.stack.truncate(top);
                }
                Ok(Flow::Normal)
            }
            Stmt::Assign { targets, exprs, line } => {
                self.cur_line = *line;
                self.exec_assign(targets, exprs, a, *line)?;
                Ok(Flow::Normal)
            }
            Stmt::Call(e, line) => {
                self.cur_line = *line;
                let top = self.stack.len();
                self.eval_call(e, a)?;
                self.stack.truncate(top);
                Ok(Flow::Normal)
            }
            Stmt::Do(b) => self.exec_block(b, a),
            Stmt::While { cond, body, line } => loop {
                self.cur_line = *line;
                if !self.eval(cond, a)?.truthy() {
                    return Ok(Flow::Normal);
                }
                self.step()?;
                match self.exec_block(body, a)? {
                    Flow::Normal => {}
                    Flow::Break => return Ok(Flow::Normal),
                    other => return Ok(other),
                }
            },
            Stmt::Repeat { body, cond, line } => loop {
                self.step()?;
                match self.exec_block(body, a)? {
                    Flow::Normal => {}
                    Flow::Break => return Ok(Flow::Normal),
                    other => return Ok(other),
                }
                self.cur_line = *line;
                if self.eval(cond, a)?.truthy() {
                    return Ok(Flow::Normal);
                }
            },
            Stmt::If { arms, orelse, line } => {
                self.cur_line = *line;
                for (c, b) in arms {
                    if self.eval(c, a)?.truthy() {
                        return self.exec_block(b, a);
                    }
                }
                match orelse {
                    Some(b) => self.exec_block(b, a),
                    None => Ok(Flow::Normal),
                }
            }
            Stmt::NumFor { var, start, limit, step, body, line } => {
                self.cur_line = *line;
                self.exec_numfor(var, start, limit, step, body, a, *line)
            }
            Stmt::GenFor { vars, base, exprs, body, line } => {
                self.cur_line = *line;
                self.exec_genfor(vars, *base, exprs, body, a, *line)
            }
            Stmt::LocalFunction { decl, proto, line } => {
                self.cur_line = *line;
                self.stack[a.base + decl.slot as usize] = Value::Nil;
                let f = self.make_closure(*proto, a);
                self.set_local(a, decl.slot, f);
                if decl.mon && self.opts.monitor_v {
                    self.mon_decl(a, decl, false);
                }
                Ok(Flow::Normal)
            }
            Stmt::Return { exprs, line } => {
                self.cur_line = *line;
                if exprs.len() == 1 && !matches!(exprs[0], Expr::Call(_) | Expr::Method(_) | Expr::Vararg) {
                    let v = self.eval(&exprs[0], a)?;
                    self.stack.push(v);
                    return Ok(Flow::Return(1));
                }
                let n = self.eval_list(exprs, a, None)?;
                Ok(Flow::Return(n))
            }
            Stmt::Break(_) => Ok(Flow::Break),
            Stmt::Goto { label, .. } => Ok(Flow::Goto(*label)),
        }
    }
}
