//! Runtime monitors: uninitialised reads, temp interference (shadow monitor), live-across-call reads.
use crate::ast::*;
use crate::interp::*;
use crate::value::*;
use crate::Event;

#[derive(Clone, Copy, Default, Debug)]
pub struct VarMeta {
    pub uninit: bool,
    pub w_act: u32,
    pub w_calls: u32,
}

#[derive(Clone, Copy, Default, Debug)]
pub struct GMeta {
    pub assigned: bool,
    pub last_writer: u32,
    pub w_act: u32,
    pub w_calls: u32,
}

#[derive(Default)]
pub struct Monitors {
    pub slot_meta: Vec<VarMeta>,
    pub cell_meta: Vec<VarMeta>,
    pub gmeta: Vec<GMeta>,
    pub shadow: FxMap<(u32, u32), Value>,
    /// per activation id: creator activation
    pub act_creator: Vec<u32>,
    pub act_live: Vec<bool>,
}

impl Monitors {
    pub fn slot_to_cell(&mut self, pos: usize, c: u32) {
        let m = self.slot_meta.get(pos).copied().unwrap_or_default();
        if self.cell_meta.len() <= c as usize {
            self.cell_meta.resize(c as usize + 1, VarMeta::default());
        }
        self.cell_meta[c as usize] = m;
    }
    pub fn exit_act(&mut self, act: u32) {
        if let Some(l) = self.act_live.get_mut(act as usize) {
            *l = false;
        }
    }
    fn cell(&mut self, c: u32) -> &mut VarMeta {
        if self.cell_meta.len() <= c as usize {
            self.cell_meta.resize(c as usize + 1, VarMeta::default());
        }
        &mut self.cell_meta[c as usize]
    }
    fn slot(&mut self, pos: usize) -> &mut VarMeta {
        if self.slot_meta.len() <= pos {
            self.slot_meta.resize(pos + 1, VarMeta::default());
        }
        &mut self.slot_meta[pos]
    }
    fn global(&mut self, gid: u32) -> &mut GMeta {
        if self.gmeta.len() <= gid as usize {
            self.gmeta.resize(gid as usize + 1, GMeta::default());
        }
        &mut self.gmeta[gid as usize]
    }
}

impl<'c> Interp<'c> {
    pub(crate) fn mon_enter(&mut self, p: &Proto, a: &Act, creator: u32) {
        let id = a.act as usize;
        if self.mon.act_creator.len() <= id {
            self.mon.act_creator.resize(id + 1, 0);
            self.mon.act_live.resize(id + 1, false);
        }
        self.mon.act_creator[id] = creator;
        self.mon.act_live[id] = true;
        if !p.emitted && a.act != 1 {
            return;
        }
        if a.act != 1 && creator != 0 {
            let live = self.mon.act_live.get(creator as usize).copied().unwrap_or(false);
            if !live {
                self.counters.closures_called_after_creator_returned += 1;
            }
        }
        let end = a.base + p.nslots as usize;
        if self.mon.slot_meta.len() < end {
            self.mon.slot_meta.resize(end, VarMeta::default());
        }
        let fresh = VarMeta { uninit: false, w_act: a.act, w_calls: 0 };
        for m in &mut self.mon.slot_meta[a.base..end] {
            *m = fresh;
        }
    }
    #[inline]
    fn calls_returned(&self, a: &Act) -> u32 {
        match self.frames.get(a.fidx) {
            Some(f) => f.calls_returned,
            None => 0,
        }
    }
    pub(crate) fn mon_decl(&mut self, a: &Act, d: &LocalDecl, defined_nil: bool) {
        let calls = self.calls_returned(a);
        let pos = a.base + d.slot as usize;
        let m = VarMeta { uninit: defined_nil, w_act: a.act, w_calls: calls };
        // a `local function` captures its own slot before it is declared here: the
        // meta of the freshly created cell must not keep what an earlier variable
        // in the same slot left behind
        if let Value::Cell(c) = self.stack[pos] {
            *self.mon.cell(c) = m;
        }
        *self.mon.slot(pos) = m;
    }
    pub(crate) fn mon_write_local(&mut self, a: &Act, l: &LocalRef) {
        let calls = self.calls_returned(a);
        let pos = a.base + l.slot as usize;
        let m = VarMeta { uninit: false, w_act: a.act, w_calls: calls };
        if let Value::Cell(c) = self.stack[pos] {
            *self.mon.cell(c) = m;
        } else {
            *self.mon.slot(pos) = m;
        }
    }
    pub(crate) fn mon_write_cell(&mut self, a: &Act, c: u32) {
        let calls = self.calls_returned(a);
        *self.mon.cell(c) = VarMeta { uninit: false, w_act: a.act, w_calls: calls };
    }
    fn check_var_read(&mut self, a: &Act, m: VarMeta, name: StrId) {
        self.counters.v_reads_checked += 1;
        if m.uninit {
            self.counters.uninit_reads += 1;
            let n = String::from_utf8_lossy(self.const_bytes(name)).to_string();
            let line = self.cur_line;
            self.emit(Event::UninitRead { line, name: n, kind: "local-defined-nil" });
        }
        if m.w_act == a.act && self.calls_returned(a) > m.w_calls {
            self.counters.live_across_call_reads += 1;
        }
    }
    pub(crate) fn mon_read_local(&mut self, a: &Act, l: &LocalRef) {
        let pos = a.base + l.slot as usize;
        let m = if let Value::Cell(c) = self.stack[pos] { *self.mon.cell(c) } else { *self.mon.slot(pos) };
        self.check_var_read(a, m, l.name);
    }
    pub(crate) fn mon_read_cell(&mut self, a: &Act, c: u32, name: StrId) {
        let m = *self.mon.cell(c);
        self.check_var_read(a, m, name);
    }
    pub(crate) fn mon_write_global(&mut self, a: &Act, g: &GlobalRef, v: &Value) {
        let calls = self.calls_returned(a);
        *self.mon.global(g.gid) = GMeta { assigned: true, last_writer: a.act, w_act: a.act, w_calls: calls };
        self.mon.shadow.insert((a.act, g.gid), v.clone());
        self.counters.free_v_writes += 1;
    }
    pub(crate) fn mon_read_global(&mut self, a: &Act, g: &GlobalRef) {
        self.counters.v_reads_checked += 1;
        self.counters.free_v_reads += 1;
        let gm = *self.mon.global(g.gid);
        let line = self.cur_line;
        let is_nil = self.globals[g.gid as usize].is_nil();
        if is_nil && !gm.assigned {
            self.counters.uninit_reads += 1;
            let n = String::from_utf8_lossy(self.const_bytes(g.name)).to_string();
            self.emit(Event::UninitRead { line, name: n, kind: "global-never-assigned" });
        }
        if gm.w_act == a.act && gm.assigned && self.calls_returned(a) > gm.w_calls {
            self.counters.live_across_call_reads += 1;
        }
        // shadow monitor: nearest shadow entry on the creator chain
        let mut cur = a.act;
        let mut guard = 0;
        loop {
            if let Some(sv) = self.mon.shadow.get(&(cur, g.gid)) {
                if gm.last_writer != cur && !raw_equal(&self.globals[g.gid as usize], sv) {
                    self.counters.interference += 1;
                    let origin = match self.origins.get(g.gid as usize) {
                        Some(Some(o)) => o.as_str(),
                        _ => "plain",
                    };
                    let n = String::from_utf8_lossy(self.const_bytes(g.name)).to_string();
                    self.emit(Event::Interference { line, name: n, writer_activation: gm.last_writer as u64, reader_activation: a.act as u64, origin });
                }
                break;
            }
            if cur == 0 {
                break;
            }
            cur = self.mon.act_creator.get(cur as usize).copied().unwrap_or(0);
            guard += 1;
            if guard > 100_000 {
                break;
            }
        }
    }
}
