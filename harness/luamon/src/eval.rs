//! Expression evaluation, indexing with metamethods, calls, table constructors.
use crate::ast::*;
use crate::errors::*;
use crate::interp::*;
use crate::value::*;
use crate::Event;

const MAXTAGLOOP: u32 = 2000;

impl<'c> Interp<'c> {
    pub(crate) fn eval(&mut self, e: &'c Expr, a: &Act) -> R<Value> {
        Ok(match e {
            Expr::Nil => Value::Nil,
            Expr::True => Value::Bool(true),
            Expr::False => Value::Bool(false),
            Expr::Int(i) => Value::Int(*i),
            Expr::Num(f) => Value::Num(*f),
            Expr::Str(id) => Value::Str(self.consts[*id as usize].clone()),
            Expr::Vararg => {
                if a.va_n > 0 {
                    self.stack[a.va_start].clone()
                } else {
                    Value::Nil
                }
            }
            Expr::Local(l) => {
                if l.mon && self.opts.monitor_v {
                    self.mon_read_local(a, l);
                }
                self.get_local(a, l.slot)
            }
            Expr::Upval(u) => {
                let c = self.upvals[a.up_start + u.idx as usize];
                if u.mon && self.opts.monitor_v {
                    self.mon_read_cell(a, c, u.name);
                }
                self.cells[c as usize].clone()
            }
            Expr::Global(g) => {
                if g.mon && self.opts.monitor_v {
                    self.mon_read_global(a, g);
                }
                self.globals[g.gid as usize].clone()
            }
            Expr::Index(ix) => {
                let obj = self.eval(&ix.obj, a)?;
                let key = self.eval(&ix.key, a)?;
                self.counters.index_ops += 1;
                // fast path: plain table hit
                if let Value::Table(t) = &obj {
                    let v = self.tables[*t as usize].get(&key);
                    if !v.is_nil() {
                        let v = v.clone();
                        if ix.dot && ix.emitted {
                            self.counters.field_reads += 1;
                        }
                        return Ok(v);
                    }
                }
                let r = self.index_slow(obj.clone(), &key, ix.line, Some(&ix.obj))?;
                if ix.dot && ix.emitted {
                    self.counters.field_reads += 1;
                    if r.is_nil() {
                        self.check_missing_field(&obj, &key, ix.line);
                    }
                }
                r
            }
            Expr::Call(_) | Expr::Method(_) => {
                let top = self.stack.len();
                let n = self.eval_call(e, a)?;
                let v = if n > 0 { std::mem::replace(&mut self.stack[top], Value::Nil) } else { Value::Nil };
                self.stack.truncate(top);
                v
            }
            Expr::Function(id) => self.make_closure(*id, a),
            Expr::Bin(b) => {
                let l = self.eval(&b.l, a)?;
                let r = self.eval(&b.r, a)?;
                return self.binop(b, l, r);
            }
            Expr::And(p) => {
                let l = self.eval(&p.0, a)?;
                if !l.truthy() {
                    l
                } else {
                    self.eval(&p.1, a)?
                }
            }
            Expr::Or(p) => {
                let l = self.eval(&p.0, a)?;
                if l.truthy() {
                    l
                } else {
                    self.eval(&p.1, a)?
                }
            }
            Expr::Un(u) => {
                let v = self.eval(&u.e, a)?;
                return self.unop(u, v);
            }
            Expr::Paren(inner) => self.eval(inner, a)?,
            Expr::Table(t) => self.construct(t, a)?,
        })
    }
    /// Evaluate pushing all values (multi-value expressions expand); returns the count pushed.
    pub(crate) fn eval_multi(&mut self, e: &'c Expr, a: &Act) -> R<usize> {
        match e {
            Expr::Call(_) | Expr::Method(_) => self.eval_call(e, a),
            Expr::Vararg => {
                for i in 0..a.va_n {
                    let v = self.stack[a.va_start + i].clone();
                    self.stack.push(v);
                }
                Ok(a.va_n)
            }
            _ => {
                let v = self.eval(e, a)?;
                self.stack.push(v);
                Ok(1)
            }
        }
    }
    /// Perform a call expression; results are left on top of the stack (count returned).
    pub(crate) fn eval_call(&mut self, e: &'c Expr, a: &Act) -> R<usize> {
        let pos = self.stack.len();
        let (args, line, fexpr): (&'c [Expr], u32, &'c Expr) = match e {
            Expr::Call(c) => {
                let f = self.eval(&c.func, a)?;
                self.stack.push(f);
                (&c.args, c.line, &c.func)
            }
            Expr::Method(m) => {
                let obj = self.eval(&m.obj, a)?;
                let key = Value::Str(self.consts[m.name as usize].clone());
                self.counters.index_ops += 1;
                let f = self.index_slow(obj.clone(), &key, m.line, Some(&m.obj))?;
                self.stack.push(f);
                self.stack.push(obj);
                (&m.args, m.line, e)
            }
            _ => return self.rt_error(0, "not a call".into()),
        };
        let n = args.len();
        for (i, arg) in args.iter().enumerate() {
            if i + 1 == n {
                self.eval_multi(arg, a)?;
            } else {
                let v = self.eval(arg, a)?;
                self.stack.push(v);
            }
        }
        let nargs = self.stack.len() - pos - 1;
        match &self.stack[pos] {
            Value::Func(_) => {}
            Value::Native(..) => self.callee_expr = Some(fexpr),
            other => {
                if self.metamethod(other, MM_CALL).is_none() {
                    let v = other.clone();
                    let info = match e {
                        Expr::Method(m) => format!(" (method '{}')", String::from_utf8_lossy(self.const_bytes(m.name))),
                        _ => self.varinfo(fexpr),
                    };
                    return self.type_error(line, "call", &v, info);
                }
            }
        }
        let r = self.call_at(pos, nargs, line);
        self.cur_line = line;
        r
    }
    fn construct(&mut self, t: &'c TableE, a: &Act) -> R<Value> {
        let id = self.new_table();
        let top = self.stack.len();
        // keep the table reachable by id only; positional items are staged on the stack
        let n = t.items.len();
        let mut arr: Vec<Value> = Vec::with_capacity(t.npos as usize);
        for (i, it) in t.items.iter().enumerate() {
            match it {
                TItem::Pos(e) => {
                    if i + 1 == n {
                        let start = self.stack.len();
                        self.eval_multi(e, a)?;
                        arr.extend(self.stack.drain(start..));
                    } else {
                        let v = self.eval(e, a)?;
                        arr.push(v);
                    }
                }
                TItem::Named(k, e) => {
                    let v = self.eval(e, a)?;
                    let key = Key::Str(self.consts[*k as usize].clone());
                    if self.tables[id as usize].set(key, v) {
                        self.alloc += 48;
                    }
                }
                TItem::Keyed(k, e) => {
                    let kv = self.eval(k, a)?;
                    let v = self.eval(e, a)?;
                    let key = self.table_key(&kv, t.line)?;
                    if self.tables[id as usize].set(key, v) {
                        self.alloc += 48;
                    }
                }
            }
        }
        self.stack.truncate(top);
        if !arr.is_empty() {
            self.alloc += 24 * arr.len() as u64;
            let tb = &mut self.tables[id as usize];
            if tb.hash_len() == 0 && tb.arr.is_empty() {
                tb.set_array(arr);
            } else {
                // positional items override/merge with explicit integer keys given earlier
                for (i, v) in arr.into_iter().enumerate() {
                    tb.set(Key::Int(i as i64 + 1), v);
                }
            }
        }
        Ok(Value::Table(id))
    }
    pub(crate) fn table_key(&mut self, k: &Value, line: u32) -> R<Key> {
        match Key::from_value(k) {
            Ok(k) => Ok(k),
            Err(KeyErr::Nil) => self.rt_error(line, "table index is nil".into()),
            Err(KeyErr::NaN) => self.rt_error(line, "table index is NaN".into()),
        }
    }
    /// Invoke a metamethod handler from the VM (one C level), first result.
    pub(crate) fn call_mm(&mut self, h: &Value, args: &[Value], line: u32) -> R<Value> {
        self.call_value1(h, args, line)
    }
    /// Full `obj[key]` with __index chains. `oexpr` gives variable info for error messages.
    pub(crate) fn index_slow(&mut self, obj: Value, key: &Value, line: u32, oexpr: Option<&Expr>) -> R<Value> {
        let mut cur = obj;
        for _ in 0..MAXTAGLOOP {
            let h = match &cur {
                Value::Table(t) => {
                    let tb = &self.tables[*t as usize];
                    let v = tb.get(key);
                    if !v.is_nil() {
                        return Ok(v.clone());
                    }
                    if tb.meta == NO_META {
                        return Ok(Value::Nil);
                    }
                    let h = self.tables[tb.meta as usize].get_str(&self.mm[MM_INDEX]);
                    if h.is_nil() {
                        return Ok(Value::Nil);
                    }
                    h.clone()
                }
                Value::Str(_) => {
                    self.ensure_string_meta();
                    match self.metamethod(&cur, MM_INDEX) {
                        Some(h) => h,
                        None => return Ok(Value::Nil),
                    }
                }
                other => {
                    let info = match oexpr {
                        Some(e) => self.varinfo(e),
                        None => String::new(),
                    };
                    let v = other.clone();
                    return self.type_error(line, "index", &v, info);
                }
            };
            if matches!(h, Value::Func(_) | Value::Native(..)) {
                return self.call_mm(&h, &[cur, key.clone()], line);
            }
            cur = h;
        }
        self.rt_error(line, "'__index' chain too long; possibly a loop".into())
    }
    pub(crate) fn set_index(&mut self, obj: Value, key: Value, v: Value, ix: &'c IndexE, _a: &Act) -> R<()> {
        self.counters.index_ops += 1;
        self.newindex(obj, key, v, ix.line, Some(&ix.obj))
    }
    pub(crate) fn newindex(&mut self, obj: Value, key: Value, v: Value, line: u32, oexpr: Option<&Expr>) -> R<()> {
        let mut cur = obj;
        for _ in 0..MAXTAGLOOP {
            let h = match &cur {
                Value::Table(t) => {
                    let t = *t;
                    let tb = &self.tables[t as usize];
                    let existing = !tb.get(&key).is_nil();
                    let h = if existing || tb.meta == NO_META {
                        Value::Nil
                    } else {
                        self.tables[tb.meta as usize].get_str(&self.mm[MM_NEWINDEX]).clone()
                    };
                    if h.is_nil() {
                        let k = self.table_key(&key, line)?;
                        if self.tables[t as usize].set(k, v) {
                            self.alloc += 48;
                        }
                        return Ok(());
                    }
                    h
                }
                other => match self.metamethod(other, MM_NEWINDEX) {
                    Some(h) => h,
                    None => {
                        let info = match oexpr {
                            Some(e) => self.varinfo(e),
                            None => String::new(),
                        };
                        let o = other.clone();
                        return self.type_error(line, "index", &o, info);
                    }
                },
            };
            if matches!(h, Value::Func(_) | Value::Native(..)) {
                self.call_mm(&h, &[cur, key, v], line)?;
                return Ok(());
            }
            cur = h;
        }
        self.rt_error(line, "'__newindex' chain too long; possibly a loop".into())
    }
    fn check_missing_field(&mut self, obj: &Value, key: &Value, line: u32) {
        if let Value::Table(t) = obj {
            let mt = self.tables[*t as usize].meta;
            if mt == NO_META {
                return;
            }
            if let Value::Str(s) = self.tables[mt as usize].get_str(&self.mm[MM_TYPE]) {
                if &s[..] == b"blob" {
                    self.counters.missing_fields += 1;
                    let field = match key {
                        Value::Str(k) => String::from_utf8_lossy(k).to_string(),
                        _ => "?".to_string(),
                    };
                    self.emit(Event::MissingField { line, field });
                }
            }
        }
    }
}
