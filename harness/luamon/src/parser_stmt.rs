//! Statement parsing (second half of the parser).
use crate::ast::*;
use crate::lexer::Tok;
use crate::parser::*;

impl<'a, 'g> Parser<'a, 'g> {
    pub(crate) fn statement(&mut self, blk: &mut Block) -> PResult<()> {
        self.enter_level()?;
        let r = self.statement_inner(blk);
        self.leave_level();
        r
    }
    fn statement_inner(&mut self, blk: &mut Block) -> PResult<()> {
        let line = self.line;
        match self.tok {
            Tok::Semi => self.advance(),
            Tok::If => self.ifstat(blk, line),
            Tok::While => {
                self.advance()?;
                let cond = self.expr()?;
                self.expect(Tok::Do)?;
                self.enter_block(true);
                let body = self.block(false)?;
                self.expect_match(Tok::End, "while", line)?;
                self.leave_block()?;
                blk.stmts.push(Stmt::While { cond, body, line });
                Ok(())
            }
            Tok::Do => {
                self.advance()?;
                let b = self.block(false)?;
                self.expect_match(Tok::End, "do", line)?;
                blk.stmts.push(Stmt::Do(b));
                Ok(())
            }
            Tok::For => self.forstat(blk, line),
            Tok::Repeat => {
                self.enter_block(true);
                self.enter_block(false);
                self.advance()?;
                let mut body = Block::default();
                self.statlist(&mut body)?;
                self.expect_match(Tok::Until, "repeat", line)?;
                let cond = self.expr()?;
                self.leave_block()?;
                self.leave_block()?;
                blk.stmts.push(Stmt::Repeat { body, cond, line });
                Ok(())
            }
            Tok::Function => self.funcstat(blk, line),
            Tok::Local => {
                self.advance()?;
                if self.accept(Tok::Function)? {
                    let name = self.expect_name()?;
                    let decl = self.new_local(name, line)?;
                    let proto = self.body(false, line)?;
                    blk.stmts.push(Stmt::LocalFunction { decl, proto, line });
                    Ok(())
                } else {
                    self.localstat(blk, line)
                }
            }
            Tok::DColon => {
                self.advance()?;
                let name = self.expect_name()?;
                self.labelstat(blk, name, line)
            }
            Tok::Return => {
                // only reachable through skip-noop recursion; handled by statlist otherwise
                self.err("unexpected symbol")
            }
            Tok::Break => {
                self.advance()?;
                let in_loop = self.cur().blocks.iter().any(|b| b.is_loop);
                if !in_loop {
                    return self.err_class(line, format!("<break> at line {} not inside a loop", line), LoadClass::BreakOutsideLoop);
                }
                blk.stmts.push(Stmt::Break(line));
                Ok(())
            }
            Tok::Goto => {
                self.advance()?;
                let label = self.expect_name()?;
                let f = self.cur();
                let nactvar = f.actvars.len();
                f.gotos.push(GotoDesc { name: label, line, nactvar });
                let g = self.cur().gotos.len() - 1;
                self.find_label(g)?;
                blk.stmts.push(Stmt::Goto { label, line });
                Ok(())
            }
            _ => self.exprstat(blk, line),
        }
    }

    fn labelstat(&mut self, blk: &mut Block, name: StrId, line: u32) -> PResult<()> {
        // checkrepeated: same block only (Lua 5.3)
        let f = self.cur();
        let first = f.blocks.last().map(|b| b.first_label).unwrap_or(0);
        if let Some(l) = f.labels[first..].iter().find(|l| l.name == name) {
            let prev = l.line;
            let n = String::from_utf8_lossy(self.lx.interner.get(name)).to_string();
            return self.err_class(line, format!("label '{}' already defined on line {}", n, prev), LoadClass::Goto);
        }
        self.expect(Tok::DColon)?;
        let f = self.cur();
        let nact = f.actvars.len();
        f.labels.push(LabelDesc { name, line, nactvar: nact });
        let li = f.labels.len() - 1;
        blk.labels.push((name, blk.stmts.len() as u32));
        // skipnoopstat
        while self.tok == Tok::Semi || self.tok == Tok::DColon {
            self.statement(blk)?;
        }
        if self.block_follow(false) {
            let f = self.cur();
            let bn = f.blocks.last().map(|b| b.nactvar).unwrap_or(0);
            if li < f.labels.len() {
                f.labels[li].nactvar = bn;
            }
        }
        // findgotos: close pending gotos of this block that match the label
        let f = self.cur();
        let (lname, lnact) = match f.labels.get(li) {
            Some(l) => (l.name, l.nactvar),
            None => return Ok(()),
        };
        let first_goto = f.blocks.last().map(|b| b.first_goto).unwrap_or(0);
        let mut i = first_goto;
        while i < self.cur().gotos.len() {
            let f = self.cur();
            if f.gotos[i].name == lname {
                if f.gotos[i].nactvar < lnact {
                    let (gl, gn) = (f.gotos[i].line, f.gotos[i].nactvar);
                    let vname = f.actvars.get(gn).map(|v| v.name).unwrap_or(HIDDEN);
                    return self.jump_scope_error(lname, gl, vname);
                }
                f.gotos.remove(i);
            } else {
                i += 1;
            }
        }
        Ok(())
    }

    fn ifstat(&mut self, blk: &mut Block, line: u32) -> PResult<()> {
        let mut arms = Vec::new();
        let mut orelse = None;
        // IF cond THEN block {ELSEIF cond THEN block} [ELSE block] END
        loop {
            self.advance()?; // skip IF / ELSEIF
            let cond = self.expr()?;
            self.expect(Tok::Then)?;
            let b = self.block(false)?;
            arms.push((cond, b));
            if self.tok != Tok::Elseif {
                break;
            }
        }
        if self.accept(Tok::Else)? {
            orelse = Some(self.block(false)?);
        }
        self.expect_match(Tok::End, "if", line)?;
        blk.stmts.push(Stmt::If { arms, orelse, line });
        Ok(())
    }

    fn forstat(&mut self, blk: &mut Block, line: u32) -> PResult<()> {
        self.enter_block(true);
        self.advance()?;
        let n1 = self.expect_name()?;
        match self.tok {
            Tok::Assign => {
                self.advance()?;
                let start = self.expr()?;
                self.expect(Tok::Comma)?;
                let limit = self.expr()?;
                let step = if self.accept(Tok::Comma)? { Some(self.expr()?) } else { None };
                for _ in 0..3 {
                    self.new_local(HIDDEN, line)?;
                }
                self.expect(Tok::Do)?;
                self.enter_block(false);
                let var = self.new_local(n1, line)?;
                let body = self.block(false)?;
                self.leave_block()?;
                self.expect_match(Tok::End, "for", line)?;
                self.leave_block()?;
                blk.stmts.push(Stmt::NumFor { var, start, limit, step, body, line });
                Ok(())
            }
            Tok::Comma | Tok::In => {
                let mut names = vec![n1];
                while self.accept(Tok::Comma)? {
                    names.push(self.expect_name()?);
                }
                self.expect(Tok::In)?;
                let exprs = self.exprlist()?;
                let base = self.cur().actvars.len() as u16;
                for _ in 0..3 {
                    self.new_local(HIDDEN, line)?;
                }
                self.expect(Tok::Do)?;
                self.enter_block(false);
                let mut vars = Vec::new();
                for n in names {
                    vars.push(self.new_local(n, line)?);
                }
                let body = self.block(false)?;
                self.leave_block()?;
                self.expect_match(Tok::End, "for", line)?;
                self.leave_block()?;
                blk.stmts.push(Stmt::GenFor { vars, base, exprs, body, line });
                Ok(())
            }
            _ => self.err("'=' or 'in' expected"),
        }
    }

    fn funcstat(&mut self, blk: &mut Block, line: u32) -> PResult<()> {
        self.advance()?;
        let n = self.expect_name()?;
        let mut target = self.resolve(n, line)?;
        let mut is_method = false;
        while self.tok == Tok::Dot || self.tok == Tok::Colon {
            let colon = self.tok == Tok::Colon;
            let kline = self.line;
            self.advance()?;
            let key = self.expect_name()?;
            target = Expr::Index(Box::new(IndexE { obj: target, key: Expr::Str(key), line: kline, dot: true, emitted: self.emitted(kline) }));
            if colon {
                is_method = true;
                break;
            }
        }
        let proto = self.body(is_method, line)?;
        blk.stmts.push(Stmt::Assign { targets: vec![target], exprs: vec![Expr::Function(proto)], line });
        Ok(())
    }

    fn localstat(&mut self, blk: &mut Block, line: u32) -> PResult<()> {
        let mut names = vec![self.expect_name()?];
        while self.accept(Tok::Comma)? {
            names.push(self.expect_name()?);
        }
        let exprs = if self.accept(Tok::Assign)? { self.exprlist()? } else { Vec::new() };
        let mut decls = Vec::with_capacity(names.len());
        for n in names {
            decls.push(self.new_local(n, line)?);
        }
        let defined_nil = decls.len() == 1 && decls[0].mon && exprs.len() == 1 && matches!(exprs[0], Expr::Nil);
        blk.stmts.push(Stmt::Local { decls, exprs, line, defined_nil });
        Ok(())
    }

    fn exprstat(&mut self, blk: &mut Block, line: u32) -> PResult<()> {
        let e = self.suffixedexp()?;
        if self.tok == Tok::Assign || self.tok == Tok::Comma {
            let mut targets = vec![e];
            while self.accept(Tok::Comma)? {
                // each extra target nests one C level in real Lua (restassign recursion)
                self.enter_level()?;
                targets.push(self.suffixedexp()?);
            }
            for _ in 1..targets.len() {
                self.leave_level();
            }
            for t in &targets {
                if !matches!(t, Expr::Local(_) | Expr::Upval(_) | Expr::Global(_) | Expr::Index(_)) {
                    return self.err("syntax error");
                }
            }
            self.expect(Tok::Assign)?;
            let exprs = self.exprlist()?;
            blk.stmts.push(Stmt::Assign { targets, exprs, line });
            Ok(())
        } else {
            if !matches!(e, Expr::Call(_) | Expr::Method(_)) {
                return self.err("syntax error");
            }
            blk.stmts.push(Stmt::Call(e, line));
            Ok(())
        }
    }

    /// function body: `(params) block end`; returns the proto id.
    pub(crate) fn body(&mut self, is_method: bool, line: u32) -> PResult<u32> {
        self.open_func(line);
        let mut nparams = 0u16;
        let mut has_mon = false;
        if is_method {
            let id = self.lx.interner.intern(b"self");
            self.new_local(id, line)?;
            nparams += 1;
        }
        self.expect(Tok::LParen)?;
        if self.tok != Tok::RParen {
            loop {
                match self.tok {
                    Tok::Name(n) => {
                        self.advance()?;
                        let d = self.new_local(n, line)?;
                        has_mon |= d.mon;
                        nparams += 1;
                    }
                    Tok::Ellipsis => {
                        self.advance()?;
                        self.cur().vararg = true;
                        break;
                    }
                    _ => return self.err("<name> or '...' expected"),
                }
                if !self.accept(Tok::Comma)? {
                    break;
                }
            }
        }
        self.expect(Tok::RParen)?;
        let mut b = Block::default();
        self.statlist(&mut b)?;
        self.expect_match(Tok::End, "function", line)?;
        self.close_func(nparams, b, has_mon)
    }

    /// Parse a whole chunk; returns the id of the main proto.
    pub fn parse_chunk(&mut self) -> PResult<u32> {
        self.advance()?;
        self.open_func(0);
        self.cur().vararg = true;
        let mut b = Block::default();
        self.statlist(&mut b)?;
        if self.tok != Tok::Eof {
            return self.err("'<eof>' expected");
        }
        self.close_func(0, b, false)
    }
}
