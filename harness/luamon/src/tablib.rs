//! table library, unpack, os / io stubs.
use crate::errors::*;
use crate::interp::*;
use crate::stdlib::Nat;
use crate::value::*;

impl<'c> Interp<'c> {
    /// checktab + luaL_len
    fn aux_getn(&mut self, fp: usize, nargs: usize, line: u32) -> R<(Value, i64)> {
        let t = match self.arg(fp, nargs, 0) {
            Some(v @ Value::Table(_)) => v.clone(),
            other => {
                let o = other.cloned();
                return self.arg_type_error(line, 1, "table", o.as_ref());
            }
        };
        let n = match self.length(&t, line, None)? {
            Value::Int(i) => i,
            Value::Num(f) => match f64_to_i64_exact(f) {
                Some(i) => i,
                None => return self.lib_error(line, "object length is not an integer".into()),
            },
            _ => return self.lib_error(line, "object length is not an integer".into()),
        };
        Ok((t, n))
    }
    fn geti(&mut self, t: &Value, i: i64, line: u32) -> R<Value> {
        if let Value::Table(id) = t {
            let v = self.tables[*id as usize].get_int(i);
            if !v.is_nil() {
                return Ok(v.clone());
            }
        }
        self.index_slow(t.clone(), &Value::Int(i), line, None)
    }
    fn seti(&mut self, t: &Value, i: i64, v: Value, line: u32) -> R<()> {
        self.newindex(t.clone(), Value::Int(i), v, line, None)
    }
    fn sort_values(&mut self, v: &mut Vec<Value>, cmp: &Option<Value>, line: u32) -> R<()> {
        // bottom-up merge sort (fallible comparator)
        let n = v.len();
        let mut width = 1;
        let mut buf: Vec<Value> = Vec::with_capacity(n);
        while width < n {
            buf.clear();
            let mut start = 0;
            while start < n {
                let mid = (start + width).min(n);
                let end = (start + 2 * width).min(n);
                let (mut i, mut j) = (start, mid);
                while i < mid && j < end {
                    // take from the right run only when right < left (keeps stability)
                    let less = match cmp {
                        Some(f) => {
                            self.step()?;
                            self.call_value1(f, &[v[j].clone(), v[i].clone()], 0)?.truthy()
                        }
                        None => self.less_than(&v[j].clone(), &v[i].clone(), line)?,
                    };
                    if less {
                        buf.push(v[j].clone());
                        j += 1;
                    } else {
                        buf.push(v[i].clone());
                        i += 1;
                    }
                }
                while i < mid {
                    buf.push(v[i].clone());
                    i += 1;
                }
                while j < end {
                    buf.push(v[j].clone());
                    j += 1;
                }
                start = end;
            }
            std::mem::swap(v, &mut buf);
            width *= 2;
        }
        Ok(())
    }
    fn do_unpack(&mut self, fp: usize, nargs: usize, line: u32) -> R<usize> {
        let t = self.arg_or_nil(fp, nargs, 0);
        let i = self.opt_int(fp, nargs, 1, line, 1)?;
        let j = match self.arg(fp, nargs, 2) {
            None | Some(Value::Nil) => match self.length(&t, line, None) {
                Ok(Value::Int(n)) => n,
                Ok(_) => return self.lib_error(line, "object length is not an integer".into()),
                Err(e) => {
                    // luaL_len on a non-table raises the VM's length error
                    return Err(e);
                }
            },
            _ => self.check_int(fp, nargs, 2, line)?,
        };
        if i > j {
            return self.ret(fp, &[]);
        }
        let n = (j as i128) - (i as i128) + 1;
        if n >= 1_000_000 || self.stack.len() as i128 + n > 1_000_000 {
            return self.lib_error(line, "too many results to unpack".into());
        }
        let mut out = Vec::with_capacity(n as usize);
        for k in i..=j {
            out.push(self.geti(&t, k, line)?);
        }
        self.ret(fp, &out)
    }
    pub(crate) fn table_native(&mut self, n: Nat, fp: usize, nargs: usize, line: u32) -> R<usize> {
        match n {
            Nat::Unpack | Nat::TUnpack => self.do_unpack(fp, nargs, line),
            Nat::TInsert => {
                let (t, size) = self.aux_getn(fp, nargs, line)?;
                let e = size.wrapping_add(1);
                let pos;
                match nargs {
                    2 => pos = e,
                    3 => {
                        pos = self.check_int(fp, nargs, 1, line)?;
                        if (pos as u64).wrapping_sub(1) >= e as u64 {
                            return self.arg_error(line, 2, "position out of bounds");
                        }
                        let mut i = e;
                        while i > pos {
                            let v = self.geti(&t, i - 1, line)?;
                            self.seti(&t, i, v, line)?;
                            i -= 1;
                        }
                    }
                    _ => return self.lib_error(line, "wrong number of arguments to 'insert'".into()),
                }
                let v = self.stack[fp + nargs].clone();
                self.seti(&t, pos, v, line)?;
                self.ret(fp, &[])
            }
            Nat::TRemove => {
                let (t, size) = self.aux_getn(fp, nargs, line)?;
                let mut pos = self.opt_int(fp, nargs, 1, line, size)?;
                if pos != size && (pos as u64).wrapping_sub(1) > size as u64 {
                    return self.arg_error(line, 1, "position out of bounds");
                }
                let result = self.geti(&t, pos, line)?;
                while pos < size {
                    let v = self.geti(&t, pos + 1, line)?;
                    self.seti(&t, pos, v, line)?;
                    pos += 1;
                }
                self.seti(&t, pos, Value::Nil, line)?;
                self.ret1(fp, result)
            }
            Nat::TConcat => {
                let (t, size) = self.aux_getn(fp, nargs, line)?;
                let sep = match self.arg(fp, nargs, 1) {
                    None | Some(Value::Nil) => std::rc::Rc::from(&b""[..]),
                    _ => self.check_str(fp, nargs, 1, line)?,
                };
                let i = self.opt_int(fp, nargs, 2, line, 1)?;
                let j = self.opt_int(fp, nargs, 3, line, size)?;
                let mut out: Vec<u8> = Vec::new();
                let mut k = i;
                while k <= j {
                    let v = self.geti(&t, k, line)?;
                    match &v {
                        Value::Str(s) => out.extend_from_slice(s),
                        Value::Int(x) => out.extend_from_slice(crate::numfmt::tostring_number_i64(*x).as_bytes()),
                        Value::Num(x) => out.extend_from_slice(crate::numfmt::tostring_number_f64(*x).as_bytes()),
                        _ => return self.lib_error(line, format!("invalid value (at index {}) in table for 'concat'", k)),
                    }
                    if k != j {
                        out.extend_from_slice(&sep);
                    }
                    if out.len() as u64 > self.opts.max_alloc_bytes {
                        return budget("memory");
                    }
                    if k == i64::MAX {
                        break;
                    }
                    k += 1;
                }
                let s = self.new_str(&out);
                self.ret1(fp, s)
            }
            Nat::TPack => {
                let t = self.new_table();
                let vals: Vec<Value> = self.stack[fp + 1..fp + 1 + nargs].to_vec();
                self.alloc += 24 * nargs as u64;
                self.tables[t as usize].set_array(vals);
                let k = Key::Str(self.mm[MM_N].clone());
                self.tables[t as usize].set(k, Value::Int(nargs as i64));
                self.ret1(fp, Value::Table(t))
            }
            Nat::TSort => {
                let (t, size) = self.aux_getn(fp, nargs, line)?;
                let cmp = match self.arg(fp, nargs, 1) {
                    None | Some(Value::Nil) => None,
                    Some(f @ (Value::Func(_) | Value::Native(..))) => Some(f.clone()),
                    other => {
                        let o = other.cloned();
                        return self.arg_type_error(line, 2, "function", o.as_ref());
                    }
                };
                if size > 1 {
                    if size >= i32::MAX as i64 {
                        return self.arg_error(line, 1, "array too big");
                    }
                    let mut vals = Vec::with_capacity(size as usize);
                    for k in 1..=size {
                        vals.push(self.geti(&t, k, line)?);
                    }
                    self.push_c_frame();
                    let r = self.sort_values(&mut vals, &cmp, line);
                    self.frames.pop();
                    r?;
                    for (k, v) in vals.into_iter().enumerate() {
                        self.seti(&t, k as i64 + 1, v, line)?;
                    }
                }
                self.ret(fp, &[])
            }
            Nat::OTime => self.ret1(fp, Value::Int(0)),
            Nat::OClock => self.ret1(fp, Value::Num(0.0)),
            Nat::OGetenv => self.ret1(fp, Value::Nil),
            Nat::ODate => {
                let s = self.new_str(b"Thu Jan  1 00:00:00 1970");
                self.ret1(fp, s)
            }
            Nat::IRead => self.ret1(fp, Value::Nil),
            Nat::IWrite => {
                for i in 0..nargs {
                    let s = self.check_str(fp, nargs, i, line)?;
                    for b in s.iter() {
                        if *b == b'\n' {
                            if self.prints.len() >= self.opts.capture_print_limit {
                                return budget("prints");
                            }
                            let l = String::from_utf8_lossy(&self.write_buf).to_string();
                            self.write_buf.clear();
                            self.prints.push(l);
                        } else {
                            self.write_buf.push(*b);
                        }
                    }
                    self.alloc += s.len() as u64;
                }
                self.ret(fp, &[])
            }
            _ => self.rt_error(line, "unknown builtin".into()),
        }
    }
}
