//! `lua` shim: lua | lua - | lua FILE  (reads a chunk, runs it with luamon).
use std::io::{Read, Write};

fn collect_modules(dir: &std::path::Path) -> Vec<(String, String)> {
    // package.path "./?.lua": NAME.lua in the current directory is module NAME, a/b.lua is module a.b
    fn walk(dir: &std::path::Path, prefix: &str, depth: u32, out: &mut Vec<(String, String)>) {
        if let Ok(rd) = std::fs::read_dir(dir) {
            for e in rd.flatten() {
                let p = e.path();
                if p.is_dir() {
                    if depth < 4 {
                        if let Some(n) = p.file_name().and_then(|s| s.to_str()) {
                            walk(&p, &format!("{}{}.", prefix, n), depth + 1, out);
                        }
                    }
                } else if p.extension().and_then(|x| x.to_str()) == Some("lua") {
                    if let (Some(stem), Ok(src)) = (p.file_stem().and_then(|s| s.to_str()), std::fs::read_to_string(&p)) {
                        out.push((format!("{}{}", prefix, stem), src));
                    }
                }
            }
        }
    }
    let mut out = Vec::new();
    walk(dir, "", 0, &mut out);
    out.sort();
    out
}

fn real_main() -> i32 {
    let args: Vec<String> = std::env::args().skip(1).collect();
    let file = args.iter().find(|a| !a.starts_with('-') || a.as_str() == "-").cloned();
    let (src, chunkname) = match file.as_deref() {
        None | Some("-") => {
            let mut s = Vec::new();
            if std::io::stdin().read_to_end(&mut s).is_err() {
                eprintln!("lua: cannot read stdin");
                return 1;
            }
            (String::from_utf8_lossy(&s).to_string(), "stdin".to_string())
        }
        Some(path) => match std::fs::read(path) {
            Ok(b) => (String::from_utf8_lossy(&b).to_string(), path.to_string()),
            Err(_) => {
                eprintln!("lua: cannot open {}", path);
                return 1;
            }
        },
    };
    let chunk = match luamon::load(&src) {
        Ok(c) => c,
        Err(e) => {
            eprintln!("lua: {}:{}: {}", chunkname, e.line, e.msg);
            return 1;
        }
    };
    let mut opts = luamon::Options { max_steps: 50_000_000, ..Default::default() };
    if !chunk.census.require_calls.is_empty() || src.contains("require") {
        opts.modules = collect_modules(std::path::Path::new("."));
    }
    let res = luamon::run(&chunk, &opts);
    {
        let stdout = std::io::stdout();
        let mut w = std::io::BufWriter::new(stdout.lock());
        for l in &res.prints {
            let _ = w.write_all(l.as_bytes());
            let _ = w.write_all(b"\n");
        }
        let _ = w.flush();
    }
    if let Ok(path) = std::env::var("LUAMON_REQUIRE_LOG") {
        if let Ok(mut f) = std::fs::OpenOptions::new().create(true).append(true).open(&path) {
            for ev in &res.events {
                if let luamon::Event::Require { line, name, found } = ev {
                    let _ = writeln!(f, "require {} line={} found={}", name, line, found);
                }
            }
        }
    }
    match res.outcome {
        luamon::Outcome::Ok => 0,
        luamon::Outcome::Error(e) => {
            eprintln!("lua: {}\nstack traceback:\n\t[C]: in ?", e.msg);
            1
        }
        luamon::Outcome::Budget(what) => {
            eprintln!("luamon: budget exceeded ({})", what);
            124
        }
    }
}

fn main() {
    // run on a thread with a large stack so deep Lua recursion cannot overflow the native stack
    let h = std::thread::Builder::new().stack_size(256 << 20).spawn(real_main);
    let code = match h {
        Ok(j) => j.join().unwrap_or(1),
        Err(_) => real_main(),
    };
    std::process::exit(code);
}
