//! math library (Lua 5.3 + LUA_COMPAT_MATHLIB functions).
use crate::errors::*;
use crate::interp::*;
use crate::numfmt::Numeral;
use crate::stdlib::Nat;
use crate::value::*;

fn num_to_value(n: Numeral) -> Value {
    match n {
        Numeral::Int(i) => Value::Int(i),
        Numeral::Flt(f) => Value::Num(f),
    }
}

fn float_to_int_or_float(f: f64) -> Value {
    match f64_to_i64_exact(f) {
        Some(i) => Value::Int(i),
        None => Value::Num(f),
    }
}

fn frexp(x: f64) -> (f64, i64) {
    if x == 0.0 || x.is_nan() || x.is_infinite() {
        return (x, 0);
    }
    let mut e = 0i64;
    let mut m = x;
    // bring subnormals into range first
    if m.abs() < f64::MIN_POSITIVE {
        m *= 2f64.powi(64);
        e -= 64;
    }
    let bits = m.to_bits();
    let exp = ((bits >> 52) & 0x7ff) as i64;
    e += exp - 1022;
    let mbits = (bits & !(0x7ffu64 << 52)) | (1022u64 << 52);
    (f64::from_bits(mbits), e)
}

impl<'c> Interp<'c> {
    fn next_random(&mut self) -> f64 {
        // xorshift64*
        let mut x = self.rng;
        x ^= x >> 12;
        x ^= x << 25;
        x ^= x >> 27;
        self.rng = x;
        let r = x.wrapping_mul(0x2545F4914F6CDD1D);
        (r >> 11) as f64 / (1u64 << 53) as f64
    }
    fn num_less(a: Numeral, b: Numeral) -> bool {
        use std::cmp::Ordering::Less;
        match (a, b) {
            (Numeral::Int(x), Numeral::Int(y)) => x < y,
            (Numeral::Flt(x), Numeral::Flt(y)) => x < y,
            (Numeral::Int(x), Numeral::Flt(y)) => crate::ops::cmp_int_float(x, y) == Some(Less),
            (Numeral::Flt(x), Numeral::Int(y)) => crate::ops::cmp_int_float(y, x) == Some(std::cmp::Ordering::Greater),
        }
    }
    pub(crate) fn math_native(&mut self, n: Nat, fp: usize, nargs: usize, line: u32) -> R<usize> {
        let f1 = |me: &mut Self, f: fn(f64) -> f64| -> R<usize> {
            let x = me.check_num(fp, nargs, 0, line)?;
            me.ret1(fp, Value::Num(f(x)))
        };
        match n {
            Nat::MFloor | Nat::MCeil => {
                let x = self.check_numeral(fp, nargs, 0, line)?;
                let v = match x {
                    Numeral::Int(i) => Value::Int(i),
                    Numeral::Flt(f) => float_to_int_or_float(if n == Nat::MFloor { f.floor() } else { f.ceil() }),
                };
                self.ret1(fp, v)
            }
            Nat::MAbs => {
                let x = self.check_numeral(fp, nargs, 0, line)?;
                let v = match x {
                    Numeral::Int(i) => Value::Int(if i < 0 { i.wrapping_neg() } else { i }),
                    Numeral::Flt(f) => Value::Num(f.abs()),
                };
                self.ret1(fp, v)
            }
            Nat::MMax | Nat::MMin => {
                let mut best = self.check_numeral(fp, nargs, 0, line)?;
                for i in 1..nargs {
                    let x = self.check_numeral(fp, nargs, i, line)?;
                    let better = if n == Nat::MMax { Self::num_less(best, x) } else { Self::num_less(x, best) };
                    if better {
                        best = x;
                    }
                }
                self.ret1(fp, num_to_value(best))
            }
            Nat::MSqrt => f1(self, f64::sqrt),
            Nat::MSin => f1(self, f64::sin),
            Nat::MCos => f1(self, f64::cos),
            Nat::MTan => f1(self, f64::tan),
            Nat::MAsin => f1(self, f64::asin),
            Nat::MAcos => f1(self, f64::acos),
            Nat::MExp => f1(self, f64::exp),
            Nat::MCosh => f1(self, f64::cosh),
            Nat::MSinh => f1(self, f64::sinh),
            Nat::MTanh => f1(self, f64::tanh),
            Nat::MLog10 => f1(self, f64::log10),
            Nat::MDeg => f1(self, |x| x * (180.0 / std::f64::consts::PI)),
            Nat::MRad => f1(self, |x| x * (std::f64::consts::PI / 180.0)),
            Nat::MAtan | Nat::MAtan2 => {
                let y = self.check_num(fp, nargs, 0, line)?;
                let x = match self.arg(fp, nargs, 1) {
                    None | Some(Value::Nil) if n == Nat::MAtan => 1.0,
                    _ => self.check_num(fp, nargs, 1, line)?,
                };
                self.ret1(fp, Value::Num(y.atan2(x)))
            }
            Nat::MPow => {
                let x = self.check_num(fp, nargs, 0, line)?;
                let y = self.check_num(fp, nargs, 1, line)?;
                self.ret1(fp, Value::Num(x.powf(y)))
            }
            Nat::MLog => {
                let x = self.check_num(fp, nargs, 0, line)?;
                let r = match self.arg(fp, nargs, 1) {
                    None | Some(Value::Nil) => x.ln(),
                    _ => {
                        let b = self.check_num(fp, nargs, 1, line)?;
                        if b == 2.0 {
                            x.log2()
                        } else if b == 10.0 {
                            x.log10()
                        } else {
                            x.ln() / b.ln()
                        }
                    }
                };
                self.ret1(fp, Value::Num(r))
            }
            Nat::MFmod => {
                let a = self.check_numeral(fp, nargs, 0, line)?;
                let b = self.check_numeral(fp, nargs, 1, line)?;
                if let (Numeral::Int(x), Numeral::Int(y)) = (a, b) {
                    if y == 0 {
                        return self.arg_error(line, 2, "zero");
                    }
                    let r = if y == -1 { 0 } else { x % y };
                    return self.ret1(fp, Value::Int(r));
                }
                let x = self.check_num(fp, nargs, 0, line)?;
                let y = self.check_num(fp, nargs, 1, line)?;
                self.ret1(fp, Value::Num(x % y))
            }
            Nat::MModf => {
                if let Some(Value::Int(i)) = self.arg(fp, nargs, 0) {
                    let i = *i;
                    return self.ret(fp, &[Value::Int(i), Value::Num(0.0)]);
                }
                let x = self.check_num(fp, nargs, 0, line)?;
                let ip = if x < 0.0 { x.ceil() } else { x.floor() };
                let frac = if x == ip { 0.0 } else { x - ip };
                self.ret(fp, &[Value::Num(ip), Value::Num(frac)])
            }
            Nat::MTointeger => {
                let v = self.check_any(fp, nargs, 0, line)?;
                let r = match Self::to_integer(&v) {
                    Some(i) => Value::Int(i),
                    None => Value::Nil,
                };
                self.ret1(fp, r)
            }
            Nat::MType => {
                let v = self.check_any(fp, nargs, 0, line)?;
                let r = match v {
                    Value::Int(_) => self.new_str(b"integer"),
                    Value::Num(_) => self.new_str(b"float"),
                    _ => Value::Nil,
                };
                self.ret1(fp, r)
            }
            Nat::MRandom => {
                let r = self.next_random();
                let (low, up) = match nargs {
                    0 => return self.ret1(fp, Value::Num(r)),
                    1 => (1, self.check_int(fp, nargs, 0, line)?),
                    2 => (self.check_int(fp, nargs, 0, line)?, self.check_int(fp, nargs, 1, line)?),
                    _ => return self.lib_error(line, "wrong number of arguments".into()),
                };
                if low > up {
                    return self.arg_error(line, nargs, "interval is empty");
                }
                if !(low >= 0 || up <= i64::MAX + low) {
                    return self.arg_error(line, nargs, "interval too large");
                }
                let span = (up.wrapping_sub(low)) as f64 + 1.0;
                let k = (r * span) as i64;
                self.ret1(fp, Value::Int(k.wrapping_add(low)))
            }
            Nat::MRandomseed => {
                let x = self.check_num(fp, nargs, 0, line)?;
                self.rng = (x.to_bits() ^ 0x9E3779B97F4A7C15) | 1;
                self.ret(fp, &[])
            }
            Nat::MUlt => {
                let a = self.check_int(fp, nargs, 0, line)?;
                let b = self.check_int(fp, nargs, 1, line)?;
                self.ret1(fp, Value::Bool((a as u64) < (b as u64)))
            }
            Nat::MLdexp => {
                let x = self.check_num(fp, nargs, 0, line)?;
                let e = self.check_int(fp, nargs, 1, line)?.clamp(-5000, 5000) as i32;
                let h = e / 2;
                self.ret1(fp, Value::Num(x * 2f64.powi(h) * 2f64.powi(e - h)))
            }
            Nat::MFrexp => {
                let x = self.check_num(fp, nargs, 0, line)?;
                let (m, e) = frexp(x);
                self.ret(fp, &[Value::Num(m), Value::Int(e)])
            }
            _ => self.rt_error(line, "unknown builtin".into()),
        }
    }
}
