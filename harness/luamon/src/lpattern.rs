//! Lua 5.3 pattern matching (port of the matcher in lstrlib.c).

pub const MAXCAPTURES: usize = 32;
const CAP_UNFINISHED: isize = -1;
const CAP_POSITION: isize = -2;
const MAXCCALLS: u32 = 200;
const ESC: u8 = b'%';

pub enum Cap {
    Str(usize, usize),
    Pos(usize),
}

pub struct MatchState<'a> {
    pub src: &'a [u8],
    pub pat: &'a [u8],
    pub level: usize,
    pub capture: [(usize, isize); MAXCAPTURES],
    depth: u32,
    /// matcher work counter (charged to the interpreter's step budget) and its cap
    pub ops: u64,
    pub max_ops: u64,
}

pub const BUDGET_MARK: &str = "\u{0}budget";

type M = Result<Option<usize>, String>;

fn class_match(c: u8, cl: u8) -> bool {
    let res = match cl.to_ascii_lowercase() {
        b'a' => c.is_ascii_alphabetic(),
        b'c' => c < 32 || c == 127,
        b'd' => c.is_ascii_digit(),
        b'g' => (33..=126).contains(&c),
        b'l' => c.is_ascii_lowercase(),
        b'p' => (33..=126).contains(&c) && !c.is_ascii_alphanumeric(),
        b's' => matches!(c, b' ' | b'\t' | b'\n' | 0x0b | 0x0c | b'\r'),
        b'u' => c.is_ascii_uppercase(),
        b'w' => c.is_ascii_alphanumeric(),
        b'x' => c.is_ascii_hexdigit(),
        _ => return cl == c,
    };
    if cl.is_ascii_uppercase() {
        !res
    } else {
        res
    }
}

impl<'a> MatchState<'a> {
    pub fn new(src: &'a [u8], pat: &'a [u8]) -> Self {
        MatchState { src, pat, level: 0, capture: [(0, 0); MAXCAPTURES], depth: MAXCCALLS, ops: 0, max_ops: u64::MAX }
    }
    pub fn reset(&mut self) {
        self.level = 0;
        self.depth = MAXCCALLS;
    }
    #[inline]
    fn p(&self, i: usize) -> u8 {
        if i < self.pat.len() { self.pat[i] } else { 0 }
    }
    #[inline]
    fn s(&self, i: usize) -> u8 {
        if i < self.src.len() { self.src[i] } else { 0 }
    }
    fn class_end(&self, p: usize) -> Result<usize, String> {
        let mut p = p;
        let c = self.p(p);
        p += 1;
        if c == ESC {
            if p >= self.pat.len() {
                return Err("malformed pattern (ends with '%')".into());
            }
            return Ok(p + 1);
        }
        if c == b'[' {
            if self.p(p) == b'^' {
                p += 1;
            }
            loop {
                if p >= self.pat.len() {
                    return Err("malformed pattern (missing ']')".into());
                }
                let cc = self.p(p);
                p += 1;
                if cc == ESC && p < self.pat.len() {
                    p += 1;
                }
                if p < self.pat.len() && self.p(p) == b']' {
                    break;
                }
                if p >= self.pat.len() {
                    return Err("malformed pattern (missing ']')".into());
                }
            }
            return Ok(p + 1);
        }
        Ok(p)
    }
    fn bracket_match(&self, c: u8, p: usize, ec: usize) -> bool {
        let mut p = p;
        let mut sig = true;
        if self.p(p + 1) == b'^' {
            sig = false;
            p += 1;
        }
        loop {
            p += 1;
            if p >= ec {
                break;
            }
            if self.p(p) == ESC {
                p += 1;
                if class_match(c, self.p(p)) {
                    return sig;
                }
            } else if self.p(p + 1) == b'-' && p + 2 < ec {
                p += 2;
                if self.p(p - 2) <= c && c <= self.p(p) {
                    return sig;
                }
            } else if self.p(p) == c {
                return sig;
            }
        }
        !sig
    }
    fn single_match(&self, s: usize, p: usize, ep: usize) -> bool {
        if s >= self.src.len() {
            return false;
        }
        let c = self.src[s];
        match self.p(p) {
            b'.' => true,
            ESC => class_match(c, self.p(p + 1)),
            b'[' => self.bracket_match(c, p, ep - 1),
            pc => pc == c,
        }
    }
    fn match_balance(&self, s: usize, p: usize) -> M {
        if p + 1 >= self.pat.len() {
            return Err("malformed pattern (missing arguments to '%b')".into());
        }
        if s >= self.src.len() || self.src[s] != self.pat[p] {
            return Ok(None);
        }
        let (b, e) = (self.pat[p], self.pat[p + 1]);
        let mut cont = 1;
        let mut s = s + 1;
        while s < self.src.len() {
            let c = self.src[s];
            if c == e {
                cont -= 1;
                if cont == 0 {
                    return Ok(Some(s + 1));
                }
            } else if c == b {
                cont += 1;
            }
            s += 1;
        }
        Ok(None)
    }
    fn max_expand(&mut self, s: usize, p: usize, ep: usize) -> M {
        let mut i = 0usize;
        while self.single_match(s + i, p, ep) {
            i += 1;
        }
        self.ops += (i as u64) / 8;
        loop {
            if let Some(r) = self.do_match(s + i, ep + 1)? {
                return Ok(Some(r));
            }
            if i == 0 {
                return Ok(None);
            }
            i -= 1;
        }
    }
    fn min_expand(&mut self, s: usize, p: usize, ep: usize) -> M {
        let mut s = s;
        loop {
            if let Some(r) = self.do_match(s, ep + 1)? {
                return Ok(Some(r));
            }
            if self.single_match(s, p, ep) {
                s += 1;
            } else {
                return Ok(None);
            }
        }
    }
    fn start_capture(&mut self, s: usize, p: usize, what: isize) -> M {
        if self.level >= MAXCAPTURES {
            return Err("too many captures".into());
        }
        self.capture[self.level] = (s, what);
        self.level += 1;
        let r = self.do_match(s, p)?;
        if r.is_none() {
            self.level -= 1;
        }
        Ok(r)
    }
    fn end_capture(&mut self, s: usize, p: usize) -> M {
        let mut l = None;
        for i in (0..self.level).rev() {
            if self.capture[i].1 == CAP_UNFINISHED {
                l = Some(i);
                break;
            }
        }
        let l = match l {
            Some(l) => l,
            None => return Err("invalid pattern capture".into()),
        };
        self.capture[l].1 = (s - self.capture[l].0) as isize;
        let r = self.do_match(s, p)?;
        if r.is_none() {
            self.capture[l].1 = CAP_UNFINISHED;
        }
        Ok(r)
    }
    fn match_capture(&self, s: usize, l: u8) -> M {
        let idx = l as isize - b'1' as isize;
        if idx < 0 || idx as usize >= self.level || self.capture[idx as usize].1 == CAP_UNFINISHED {
            return Err(format!("invalid capture index %{}", idx + 1));
        }
        let (init, len) = self.capture[idx as usize];
        let len = if len < 0 { 0 } else { len as usize };
        if self.src.len() - s >= len && self.src[init..init + len] == self.src[s..s + len] {
            Ok(Some(s + len))
        } else {
            Ok(None)
        }
    }
    pub fn do_match(&mut self, s: usize, p: usize) -> M {
        if self.depth == 0 {
            return Err("pattern too complex".into());
        }
        self.ops += 1;
        if self.ops > self.max_ops {
            return Err(BUDGET_MARK.into());
        }
        self.depth -= 1;
        let r = self.match_inner(s, p);
        self.depth += 1;
        r
    }
    fn match_inner(&mut self, s: usize, p: usize) -> M {
        let (mut s, mut p) = (s, p);
        loop {
            if p >= self.pat.len() {
                return Ok(Some(s));
            }
            match self.pat[p] {
                b'(' => {
                    return if self.p(p + 1) == b')' { self.start_capture(s, p + 2, CAP_POSITION) } else { self.start_capture(s, p + 1, CAP_UNFINISHED) };
                }
                b')' => return self.end_capture(s, p + 1),
                b'$' if p + 1 == self.pat.len() => {
                    return Ok(if s == self.src.len() { Some(s) } else { None });
                }
                ESC if self.p(p + 1) == b'b' => match self.match_balance(s, p + 2)? {
                    Some(ns) => {
                        s = ns;
                        p += 4;
                        continue;
                    }
                    None => return Ok(None),
                },
                ESC if self.p(p + 1) == b'f' => {
                    p += 2;
                    if self.p(p) != b'[' {
                        return Err("missing '[' after '%f' in pattern".into());
                    }
                    let ep = self.class_end(p)?;
                    let prev = if s == 0 { 0 } else { self.src[s - 1] };
                    if !self.bracket_match(prev, p, ep - 1) && self.bracket_match(self.s(s), p, ep - 1) {
                        p = ep;
                        continue;
                    }
                    return Ok(None);
                }
                ESC if self.p(p + 1).is_ascii_digit() && p + 1 < self.pat.len() => match self.match_capture(s, self.p(p + 1))? {
                    Some(ns) => {
                        s = ns;
                        p += 2;
                        continue;
                    }
                    None => return Ok(None),
                },
                _ => {
                    let ep = self.class_end(p)?;
                    let epc = self.p(ep);
                    if !self.single_match(s, p, ep) {
                        if epc == b'*' || epc == b'?' || epc == b'-' {
                            p = ep + 1;
                            continue;
                        }
                        return Ok(None);
                    }
                    match epc {
                        b'?' => {
                            if let Some(r) = self.do_match(s + 1, ep + 1)? {
                                return Ok(Some(r));
                            }
                            p = ep + 1;
                            continue;
                        }
                        b'+' => return self.max_expand(s + 1, p, ep),
                        b'*' => return self.max_expand(s, p, ep),
                        b'-' => return self.min_expand(s, p, ep),
                        _ => {
                            s += 1;
                            p = ep;
                            continue;
                        }
                    }
                }
            }
        }
    }
    pub fn get_capture(&self, i: usize, s: usize, e: usize) -> Result<Cap, String> {
        if i >= self.level {
            if i == 0 {
                return Ok(Cap::Str(s, e));
            }
            return Err(format!("invalid capture index %{}", i + 1));
        }
        let (init, len) = self.capture[i];
        if len == CAP_UNFINISHED {
            return Err("unfinished capture".into());
        }
        if len == CAP_POSITION {
            return Ok(Cap::Pos(init + 1));
        }
        Ok(Cap::Str(init, init + len as usize))
    }
    /// number of values push_captures would produce for a successful match
    #[allow(dead_code)]
    pub fn ncaptures(&self) -> usize {
        if self.level == 0 { 1 } else { self.level }
    }
}

pub fn has_specials(p: &[u8]) -> bool {
    p.iter().any(|b| b"^$*+?.([%-".contains(b))
}

pub fn find_plain(hay: &[u8], needle: &[u8], from: usize) -> Option<usize> {
    if needle.is_empty() {
        return Some(from);
    }
    if needle.len() > hay.len() {
        return None;
    }
    let last = hay.len() - needle.len();
    let mut i = from;
    while i <= last {
        if hay[i] == needle[0] && &hay[i..i + needle.len()] == needle {
            return Some(i);
        }
        i += 1;
    }
    None
}
