//! string library (byte-string based), string.format, and pattern-based find/match/gmatch/gsub.
use crate::errors::*;
use crate::interp::*;
use crate::lpattern::*;
use crate::numfmt::{self, Spec};
use crate::stdlib::Nat;
use crate::value::*;

fn posrelat(pos: i64, len: usize) -> i64 {
    if pos >= 0 {
        pos
    } else if (pos as i128).unsigned_abs() > len as u128 {
        0
    } else {
        len as i64 + pos + 1
    }
}

impl<'c> Interp<'c> {
    /// one match attempt at `s1`; matcher work is charged to the step budget (1 step per 16 matcher ops)
    fn try_match(&mut self, ms: &mut MatchState, s1: usize, line: u32) -> R<Option<usize>> {
        ms.reset();
        ms.ops = 0;
        ms.max_ops = self.max_steps.saturating_sub(self.steps).saturating_add(1).saturating_mul(16);
        let r = ms.do_match(s1, 0);
        self.steps += 1 + ms.ops / 16;
        match r {
            Ok(r) => Ok(r),
            Err(m) if m == BUDGET_MARK => budget("steps"),
            Err(m) => self.lib_error(line, m),
        }
    }
    fn cap_value(&mut self, ms: &MatchState, i: usize, s: usize, e: usize, line: u32) -> R<Value> {
        match ms.get_capture(i, s, e) {
            Ok(Cap::Str(a, b)) => Ok(self.new_str(&ms.src[a..b])),
            Ok(Cap::Pos(p)) => Ok(Value::Int(p as i64)),
            Err(m) => self.lib_error(line, m),
        }
    }
    fn captures(&mut self, ms: &MatchState, s: usize, e: usize, whole_if_none: bool, line: u32) -> R<Vec<Value>> {
        let n = if ms.level == 0 && whole_if_none { 1 } else { ms.level };
        let mut out = Vec::with_capacity(n);
        for i in 0..n {
            out.push(self.cap_value(ms, i, s, e, line)?);
        }
        Ok(out)
    }
    fn str_find(&mut self, find: bool, fp: usize, nargs: usize, line: u32) -> R<usize> {
        let s = self.check_str(fp, nargs, 0, line)?;
        let p = self.check_str(fp, nargs, 1, line)?;
        let mut init = posrelat(self.opt_int(fp, nargs, 2, line, 1)?, s.len());
        if init < 1 {
            init = 1;
        } else if init > s.len() as i64 + 1 {
            return self.ret1(fp, Value::Nil);
        }
        let init = (init - 1) as usize;
        let plain = find && self.arg(fp, nargs, 3).map(|v| v.truthy()).unwrap_or(false);
        if find && (plain || !has_specials(&p)) {
            return match find_plain(&s, &p, init) {
                Some(pos) => self.ret(fp, &[Value::Int(pos as i64 + 1), Value::Int((pos + p.len()) as i64)]),
                None => self.ret1(fp, Value::Nil),
            };
        }
        let anchor = p.first() == Some(&b'^');
        let pat = if anchor { &p[1..] } else { &p[..] };
        let mut ms = MatchState::new(&s, pat);
        let mut s1 = init;
        loop {
            let r = self.try_match(&mut ms, s1, line)?;
            if let Some(e) = r {
                if find {
                    let mut out = vec![Value::Int(s1 as i64 + 1), Value::Int(e as i64)];
                    out.extend(self.captures(&ms, s1, e, false, line)?);
                    return self.ret(fp, &out);
                }
                let out = self.captures(&ms, s1, e, true, line)?;
                return self.ret(fp, &out);
            }
            s1 += 1;
            if s1 > s.len() || anchor {
                break;
            }
        }
        self.ret1(fp, Value::Nil)
    }
    fn gmatch_aux(&mut self, payload: u32, fp: usize, line: u32) -> R<usize> {
        let (src, pat, start, last) = match self.gmatch.get(payload as usize) {
            Some(g) => (g.src.clone(), g.pat.clone(), g.pos, g.last_end),
            None => return self.ret1(fp, Value::Nil),
        };
        let mut ms = MatchState::new(&src, &pat);
        let mut s1 = start;
        while s1 <= src.len() {
            let r = self.try_match(&mut ms, s1, line)?;
            if let Some(e) = r {
                if Some(e) != last {
                    if let Some(g) = self.gmatch.get_mut(payload as usize) {
                        g.pos = e;
                        g.last_end = Some(e);
                    }
                    let out = self.captures(&ms, s1, e, true, line)?;
                    return self.ret(fp, &out);
                }
            }
            s1 += 1;
        }
        if let Some(g) = self.gmatch.get_mut(payload as usize) {
            g.pos = src.len() + 1;
        }
        self.ret1(fp, Value::Nil)
    }
    fn gsub(&mut self, fp: usize, nargs: usize, line: u32) -> R<usize> {
        let s = self.check_str(fp, nargs, 0, line)?;
        let p = self.check_str(fp, nargs, 1, line)?;
        let repl = self.arg_or_nil(fp, nargs, 2);
        if !matches!(repl, Value::Str(_) | Value::Int(_) | Value::Num(_) | Value::Table(_) | Value::Func(_) | Value::Native(..)) {
            return self.arg_error(line, 3, "string/function/table expected");
        }
        let max_s = self.opt_int(fp, nargs, 3, line, s.len() as i64 + 1)?;
        let anchor = p.first() == Some(&b'^');
        let pat = if anchor { &p[1..] } else { &p[..] };
        let repl_str = match &repl {
            Value::Int(_) | Value::Num(_) => Some(self.check_str(fp, nargs, 2, line)?),
            Value::Str(r) => Some(r.clone()),
            _ => None,
        };
        let mut ms = MatchState::new(&s, pat);
        let mut out: Vec<u8> = Vec::new();
        let (mut src, mut n, mut last) = (0usize, 0i64, None);
        while n < max_s {
            self.step()?;
            let r = self.try_match(&mut ms, src, line)?;
            match r {
                Some(e) if Some(e) != last => {
                    n += 1;
                    // add_value
                    let val = if let Some(rs) = &repl_str {
                        let mut i = 0;
                        while i < rs.len() {
                            if rs[i] != b'%' {
                                out.push(rs[i]);
                            } else {
                                i += 1;
                                let c = if i < rs.len() { rs[i] } else { 0 };
                                if c == b'%' {
                                    out.push(b'%');
                                } else if c.is_ascii_digit() {
                                    let v = if c == b'0' { self.new_str(&s[src..e]) } else { self.cap_value(&ms, (c - b'1') as usize, src, e, line)? };
                                    match self.tostring(&v, line)? {
                                        Value::Str(t) => out.extend_from_slice(&t),
                                        _ => {}
                                    }
                                } else {
                                    return self.lib_error(line, "invalid use of '%' in replacement string".into());
                                }
                            }
                            i += 1;
                        }
                        Value::Bool(true)
                    } else {
                        let first = self.cap_value(&ms, 0, src, e, line)?;
                        if let Value::Table(_) = repl {
                            self.index_slow(repl.clone(), &first, line, None)?
                        } else {
                            let caps = self.captures(&ms, src, e, true, line)?;
                            self.call_value1(&repl, &caps, 0)?
                        }
                    };
                    if repl_str.is_none() {
                        match &val {
                            Value::Nil | Value::Bool(false) => out.extend_from_slice(&s[src..e]),
                            Value::Str(t) => out.extend_from_slice(t),
                            Value::Int(_) | Value::Num(_) => {
                                if let Value::Str(t) = self.tostring(&val, line)? {
                                    out.extend_from_slice(&t)
                                }
                            }
                            other => return self.lib_error(line, format!("invalid replacement value (a {})", other.type_name())),
                        }
                    }
                    src = e;
                    last = Some(e);
                }
                _ => {
                    if src < s.len() {
                        out.push(s[src]);
                        src += 1;
                    } else {
                        break;
                    }
                }
            }
            if anchor {
                break;
            }
        }
        if src < s.len() {
            out.extend_from_slice(&s[src..]);
        }
        let r = self.new_str(&out);
        self.ret(fp, &[r, Value::Int(n)])
    }
    fn add_quoted(out: &mut Vec<u8>, s: &[u8]) {
        out.push(b'"');
        for (i, &c) in s.iter().enumerate() {
            match c {
                b'"' | b'\\' => {
                    out.push(b'\\');
                    out.push(c);
                }
                b'\n' => out.extend_from_slice(b"\\\n"),
                b'\r' => out.extend_from_slice(b"\\r"),
                0 => {
                    let next_digit = s.get(i + 1).map(|b| b.is_ascii_digit()).unwrap_or(false);
                    out.extend_from_slice(if next_digit { b"\\000" } else { b"\\0" });
                }
                c if c < 32 || c == 127 => {
                    let next_digit = s.get(i + 1).map(|b| b.is_ascii_digit()).unwrap_or(false);
                    let t = if next_digit { format!("\\{:03}", c) } else { format!("\\{}", c) };
                    out.extend_from_slice(t.as_bytes());
                }
                _ => out.push(c),
            }
        }
        out.push(b'"');
    }
    fn format(&mut self, fp: usize, nargs: usize, line: u32) -> R<usize> {
        let f = self.check_str(fp, nargs, 0, line)?;
        let mut out: Vec<u8> = Vec::new();
        let mut arg = 0usize;
        let mut i = 0usize;
        while i < f.len() {
            if f[i] != b'%' {
                out.push(f[i]);
                i += 1;
                continue;
            }
            i += 1;
            if i < f.len() && f[i] == b'%' {
                out.push(b'%');
                i += 1;
                continue;
            }
            arg += 1;
            let mut sp = Spec::default();
            let fstart = i;
            while i < f.len() && b"-+ #0".contains(&f[i]) {
                match f[i] {
                    b'-' => sp.left = true,
                    b'+' => sp.plus = true,
                    b' ' => sp.space = true,
                    b'#' => sp.alt = true,
                    _ => sp.zero = true,
                }
                i += 1;
            }
            if i - fstart >= 6 {
                return self.lib_error(line, "invalid format (repeated flags)".into());
            }
            let mut nd = 0;
            while i < f.len() && f[i].is_ascii_digit() && nd < 2 {
                sp.width = sp.width * 10 + (f[i] - b'0') as usize;
                i += 1;
                nd += 1;
            }
            if i < f.len() && f[i] == b'.' {
                i += 1;
                let mut p = 0;
                nd = 0;
                while i < f.len() && f[i].is_ascii_digit() && nd < 2 {
                    p = p * 10 + (f[i] - b'0') as usize;
                    i += 1;
                    nd += 1;
                }
                sp.prec = Some(p);
            }
            if i < f.len() && f[i].is_ascii_digit() {
                return self.lib_error(line, "invalid format (width or precision too long)".into());
            }
            let conv = if i < f.len() { f[i] } else { 0 };
            i += 1;
            if arg >= nargs && conv != 0 && b"cdiouxXeEfFgGaAqs".contains(&conv) {
                return self.arg_error(line, arg + 1, "no value");
            }
            match conv {
                b'c' => {
                    let c = self.check_int(fp, nargs, arg, line)?;
                    out.extend_from_slice(&numfmt::fmt_str(&[c as u8], &sp));
                }
                b'd' | b'i' => {
                    let n = self.check_int(fp, nargs, arg, line)?;
                    out.extend_from_slice(numfmt::fmt_int(n, &sp).as_bytes());
                }
                b'o' | b'u' | b'x' | b'X' => {
                    let n = self.check_int(fp, nargs, arg, line)?;
                    out.extend_from_slice(numfmt::fmt_uint(n, &sp, conv).as_bytes());
                }
                b'e' | b'E' | b'f' | b'F' | b'g' | b'G' => {
                    let x = self.check_num(fp, nargs, arg, line)?;
                    out.extend_from_slice(numfmt::fmt_float(x, &sp, conv).as_bytes());
                }
                b'a' | b'A' => {
                    let x = self.check_num(fp, nargs, arg, line)?;
                    out.extend_from_slice(numfmt::fmt_float(x, &sp, b'g').as_bytes());
                }
                b'q' => match self.arg_or_nil(fp, nargs, arg) {
                    Value::Str(s) => Self::add_quoted(&mut out, &s),
                    Value::Int(n) => out.extend_from_slice(numfmt::tostring_number_i64(n).as_bytes()),
                    v @ (Value::Num(_) | Value::Nil | Value::Bool(_)) => {
                        if let Value::Str(s) = self.tostring(&v, line)? {
                            out.extend_from_slice(&s)
                        }
                    }
                    _ => return self.arg_error(line, arg + 1, "value has no literal form"),
                },
                b's' => {
                    let v = self.arg_or_nil(fp, nargs, arg);
                    if let Value::Str(s) = self.tostring(&v, line)? {
                        if sp.prec.is_none() && s.len() >= 100 {
                            out.extend_from_slice(&s);
                        } else {
                            out.extend_from_slice(&numfmt::fmt_str(&s, &sp));
                        }
                    }
                }
                _ => {
                    let shown = String::from_utf8_lossy(&f[fstart - 1..i.min(f.len())]).to_string();
                    return self.lib_error(line, format!("invalid option '{}' to 'format'", shown));
                }
            }
        }
        let r = self.new_str(&out);
        self.ret1(fp, r)
    }
    pub(crate) fn string_native(&mut self, n: Nat, payload: u32, fp: usize, nargs: usize, line: u32) -> R<usize> {
        match n {
            Nat::SLen => {
                let s = self.check_str(fp, nargs, 0, line)?;
                self.ret1(fp, Value::Int(s.len() as i64))
            }
            Nat::SSub => {
                let s = self.check_str(fp, nargs, 0, line)?;
                let l = s.len();
                let mut start = posrelat(self.check_int(fp, nargs, 1, line)?, l);
                let mut end = posrelat(self.opt_int(fp, nargs, 2, line, -1)?, l);
                if start < 1 {
                    start = 1;
                }
                if end > l as i64 {
                    end = l as i64;
                }
                let r = if start <= end { self.new_str(&s[(start - 1) as usize..end as usize]) } else { self.new_str(b"") };
                self.ret1(fp, r)
            }
            Nat::SByte => {
                let s = self.check_str(fp, nargs, 0, line)?;
                let l = s.len();
                let mut posi = posrelat(self.opt_int(fp, nargs, 1, line, 1)?, l);
                let mut pose = posrelat(self.opt_int(fp, nargs, 2, line, posi)?, l);
                if posi < 1 {
                    posi = 1;
                }
                if pose > l as i64 {
                    pose = l as i64;
                }
                if posi > pose {
                    return self.ret(fp, &[]);
                }
                if pose - posi >= 1_000_000 {
                    return self.lib_error(line, "string slice too long".into());
                }
                let out: Vec<Value> = s[(posi - 1) as usize..pose as usize].iter().map(|b| Value::Int(*b as i64)).collect();
                self.ret(fp, &out)
            }
            Nat::SChar => {
                let mut out = Vec::with_capacity(nargs);
                for i in 0..nargs {
                    let c = self.check_int(fp, nargs, i, line)?;
                    if !(0..=255).contains(&c) {
                        return self.arg_error(line, i + 1, "value out of range");
                    }
                    out.push(c as u8);
                }
                let r = self.new_str(&out);
                self.ret1(fp, r)
            }
            Nat::SRep => {
                let s = self.check_str(fp, nargs, 0, line)?;
                let n = self.check_int(fp, nargs, 1, line)?;
                let sep = match self.arg(fp, nargs, 2) {
                    None | Some(Value::Nil) => std::rc::Rc::from(&b""[..]),
                    _ => self.check_str(fp, nargs, 2, line)?,
                };
                if n <= 0 {
                    let r = self.new_str(b"");
                    return self.ret1(fp, r);
                }
                let total = (s.len() as u128 + sep.len() as u128) * n as u128;
                if total > (1u128 << 62) {
                    return self.lib_error(line, "resulting string too large".into());
                }
                if total as u64 + self.alloc > self.opts.max_alloc_bytes {
                    return budget("memory");
                }
                let mut out = Vec::with_capacity(total as usize);
                for i in 0..n {
                    out.extend_from_slice(&s);
                    if i + 1 < n {
                        out.extend_from_slice(&sep);
                    }
                }
                let r = self.new_str(&out);
                self.ret1(fp, r)
            }
            Nat::SReverse | Nat::SLower | Nat::SUpper => {
                let s = self.check_str(fp, nargs, 0, line)?;
                let out: Vec<u8> = match n {
                    Nat::SReverse => s.iter().rev().cloned().collect(),
                    Nat::SLower => s.iter().map(|b| b.to_ascii_lowercase()).collect(),
                    _ => s.iter().map(|b| b.to_ascii_uppercase()).collect(),
                };
                let r = self.new_str(&out);
                self.ret1(fp, r)
            }
            Nat::SFormat => self.format(fp, nargs, line),
            Nat::SFind => self.str_find(true, fp, nargs, line),
            Nat::SMatch => self.str_find(false, fp, nargs, line),
            Nat::SGmatch => {
                let s = self.check_str(fp, nargs, 0, line)?;
                let p = self.check_str(fp, nargs, 1, line)?;
                self.gmatch.push(GmatchState { src: s, pat: p, pos: 0, last_end: None });
                let id = (self.gmatch.len() - 1) as u32;
                self.ret1(fp, Value::Native(Nat::SGmatchAux as u16, id))
            }
            Nat::SGmatchAux => self.gmatch_aux(payload, fp, line),
            Nat::SGsub => self.gsub(fp, nargs, line),
            _ => self.rt_error(line, "unknown builtin".into()),
        }
    }
}
