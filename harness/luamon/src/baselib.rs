//! Base library functions.
use crate::errors::*;
use crate::interp::*;
use crate::numfmt::{str2number, Numeral};
use crate::stdlib::Nat;
use crate::value::*;
use crate::Event;

impl<'c> Interp<'c> {
    /// Position prefix for `error(msg, level)`: level 1 = the caller of `error`.
    fn where_level(&self, level: i64, line: u32) -> String {
        if level <= 0 {
            return String::new();
        }
        if level == 1 {
            return Self::where_prefix(line);
        }
        // frames: the top entry is the function that called error (if called from Lua)
        let n = self.frames.len();
        if line == 0 || n < level as usize {
            return String::new();
        }
        let idx = n - level as usize;
        match self.frames.get(idx) {
            Some(f) if f.is_lua => Self::where_prefix(f.line),
            _ => String::new(),
        }
    }
    pub(crate) fn print_line(&mut self, text: &[u8]) -> R<()> {
        if self.prints.len() >= self.opts.capture_print_limit {
            return budget("prints");
        }
        self.alloc += text.len() as u64 + 24;
        if self.write_buf.is_empty() {
            self.prints.push(String::from_utf8_lossy(text).to_string());
        } else {
            self.write_buf.extend_from_slice(text);
            self.flush_write();
        }
        Ok(())
    }
    fn tonumber_base(s: &[u8], base: i64) -> Option<i64> {
        let is_sp = |b: u8| matches!(b, b' ' | b'\t' | b'\n' | 0x0b | 0x0c | b'\r');
        let mut i = 0;
        while i < s.len() && is_sp(s[i]) {
            i += 1;
        }
        let mut neg = false;
        if i < s.len() && (s[i] == b'-' || s[i] == b'+') {
            neg = s[i] == b'-';
            i += 1;
        }
        if i >= s.len() || !s[i].is_ascii_alphanumeric() {
            return None;
        }
        let mut n: i64 = 0;
        while i < s.len() && s[i].is_ascii_alphanumeric() {
            let d = if s[i].is_ascii_digit() { (s[i] - b'0') as i64 } else { (s[i].to_ascii_uppercase() - b'A') as i64 + 10 };
            if d >= base {
                return None;
            }
            n = n.wrapping_mul(base).wrapping_add(d);
            i += 1;
        }
        while i < s.len() && is_sp(s[i]) {
            i += 1;
        }
        if i != s.len() {
            return None;
        }
        Some(if neg { n.wrapping_neg() } else { n })
    }
    fn do_require(&mut self, fp: usize, nargs: usize, line: u32) -> R<usize> {
        let name_b = self.check_str(fp, nargs, 0, line)?;
        let name = String::from_utf8_lossy(&name_b).to_string();
        if let Some((_, v)) = self.loaded.iter().find(|(n, _)| *n == name) {
            let v = v.clone();
            let ev_line = if line != 0 { line } else { self.cur_line };
            self.emit(Event::Require { line: ev_line, name, found: true });
            return self.ret1(fp, v);
        }
        let entry = self.modules.iter().find(|(n, _)| *n == name).map(|(_, r)| r.clone());
        let ev_line = if line != 0 { line } else { self.cur_line };
        self.emit(Event::Require { line: ev_line, name: name.clone(), found: entry.is_some() });
        match entry {
            None => self.lib_error(line, format!("module '{}' not found:\n\tno field package.preload['{}']\n\tno file './{}.lua'", name, name, name)),
            Some(Err(e)) => self.lib_error(line, format!("error loading module '{}' from file './{}.lua':\n\t./{}.lua:{}: {}", name, name, name, e.line, e.msg)),
            Some(Ok(main)) => {
                let root = Act { base: 0, va_start: 0, va_n: 0, up_start: 0, act: 0, fidx: 0 };
                let f = self.make_closure(main, &root);
                let arg = Value::Str(name_b.clone());
                self.push_c_frame();
                let r = self.call_value1(&f, &[arg], 0);
                self.frames.pop();
                let mut v = r?;
                if v.is_nil() {
                    v = Value::Bool(true);
                }
                self.loaded.push((name, v.clone()));
                self.ret1(fp, v)
            }
        }
    }
    fn do_pcall(&mut self, fp: usize, nargs: usize, _line: u32, handler: Option<Value>) -> R<usize> {
        let skip = if handler.is_some() { 2 } else { 1 };
        let (nframes, depth, cdepth) = (self.frames.len(), self.depth, self.c_depth);
        if handler.is_some() {
            // [xpcall][f][msgh][args...] -> drop msgh
            self.stack.remove(fp + 2);
        }
        // the C-level check happens inside the protected region (as luaD_call inside luaD_pcall does)
        let r = match self.enter_c(0) {
            Ok(()) => {
                self.push_c_frame();
                self.callee_expr = None;
                self.call_at(fp + 1, nargs - skip, 0)
            }
            Err(e) => Err(e),
        };
        match r {
            Ok(n) => {
                self.frames.truncate(nframes);
                self.leave_c();
                self.stack[fp] = Value::Bool(true);
                Ok(n + 1)
            }
            Err(e) => match *e {
                Unwind::Budget(w) => budget(w),
                Unwind::Error { value, .. } => {
                    self.for_iter = false;
                    self.callee_expr = None;
                    self.frames.truncate(nframes);
                    self.depth = depth;
                    self.c_depth = cdepth;
                    self.stack.truncate(fp);
                    let v = match handler {
                        Some(h) => {
                            self.c_depth += 1;
                            let r = self.call_value1(&h, &[value], 0);
                            self.c_depth = cdepth;
                            r?
                        }
                        None => value,
                    };
                    self.stack.push(Value::Bool(false));
                    self.stack.push(v);
                    Ok(2)
                }
            },
        }
    }
    pub(crate) fn base_native(&mut self, n: Nat, fp: usize, nargs: usize, line: u32) -> R<usize> {
        match n {
            Nat::Print => {
                let mut out: Vec<u8> = Vec::new();
                for i in 0..nargs {
                    let v = self.stack[fp + 1 + i].clone();
                    if i > 0 {
                        out.push(b'\t');
                    }
                    match self.tostring(&v, line)? {
                        Value::Str(s) => out.extend_from_slice(&s),
                        _ => {}
                    }
                }
                self.print_line(&out)?;
                self.ret(fp, &[])
            }
            Nat::Assert => {
                let c = self.check_any(fp, nargs, 0, line)?;
                if c.truthy() {
                    self.stack.remove(fp);
                    return Ok(nargs);
                }
                if nargs >= 2 {
                    let msg = self.stack[fp + 2].clone();
                    if self.opts.assert_adds_position {
                        if let Value::Str(s) = &msg {
                            let full = format!("{}{}", Self::where_prefix(line), String::from_utf8_lossy(s));
                            return self.throw_value(Value::str(full.as_bytes()), line, ErrOrigin::Assert);
                        }
                    }
                    return self.throw_value(msg, line, ErrOrigin::Assert);
                }
                let full = format!("{}assertion failed!", Self::where_prefix(line));
                self.throw_value(Value::str(full.as_bytes()), line, ErrOrigin::Assert)
            }
            Nat::Error => {
                let v = self.arg_or_nil(fp, nargs, 0);
                let level = self.opt_int(fp, nargs, 1, line, 1)?;
                if let Value::Str(s) = &v {
                    if level > 0 {
                        let full = format!("{}{}", self.where_level(level, line), String::from_utf8_lossy(s));
                        return self.throw_value(Value::str(full.as_bytes()), line, ErrOrigin::ErrorFn);
                    }
                }
                self.throw_value(v, line, ErrOrigin::ErrorFn)
            }
            Nat::Pcall => {
                self.check_any(fp, nargs, 0, line)?;
                self.do_pcall(fp, nargs, line, None)
            }
            Nat::Xpcall => {
                if nargs < 2 {
                    return self.arg_error(line, 2, "value expected");
                }
                let h = self.stack[fp + 2].clone();
                self.do_pcall(fp, nargs, line, Some(h))
            }
            Nat::Type => {
                let v = self.check_any(fp, nargs, 0, line)?;
                let s = self.new_str(v.type_name().as_bytes());
                self.ret1(fp, s)
            }
            Nat::Tostring => {
                let v = self.check_any(fp, nargs, 0, line)?;
                let s = self.tostring(&v, line)?;
                self.ret1(fp, s)
            }
            Nat::Tonumber => {
                if nargs < 2 || matches!(self.stack[fp + 2], Value::Nil) {
                    let v = self.check_any(fp, nargs, 0, line)?;
                    let r = match &v {
                        Value::Int(_) | Value::Num(_) => v.clone(),
                        Value::Str(s) => match str2number(s) {
                            Some(Numeral::Int(i)) => Value::Int(i),
                            Some(Numeral::Flt(f)) => Value::Num(f),
                            None => Value::Nil,
                        },
                        _ => Value::Nil,
                    };
                    return self.ret1(fp, r);
                }
                let base = self.check_int(fp, nargs, 1, line)?;
                let s = match self.arg(fp, nargs, 0) {
                    Some(Value::Str(s)) => s.clone(),
                    other => {
                        let o = other.cloned();
                        return self.arg_type_error(line, 1, "string", o.as_ref());
                    }
                };
                if !(2..=36).contains(&base) {
                    return self.arg_error(line, 2, "base out of range");
                }
                let r = match Self::tonumber_base(&s, base) {
                    Some(i) => Value::Int(i),
                    None => Value::Nil,
                };
                self.ret1(fp, r)
            }
            Nat::Pairs => {
                let t = self.check_any(fp, nargs, 0, line)?;
                if let Some(h) = self.metamethod(&t, MM_PAIRS) {
                    self.stack.truncate(fp);
                    self.stack.push(h);
                    self.stack.push(t);
                    self.enter_c(0)?;
                    let r = self.call_at(fp, 1, 0);
                    self.leave_c();
                    r?;
                    self.stack.resize(fp + 3, Value::Nil);
                    return Ok(3);
                }
                self.ret(fp, &[Value::Native(Nat::Next as u16, 0), t, Value::Nil])
            }
            Nat::Ipairs => {
                let t = self.check_any(fp, nargs, 0, line)?;
                self.ret(fp, &[Value::Native(Nat::IpairsAux as u16, 0), t, Value::Int(0)])
            }
            Nat::IpairsAux => {
                let i = self.check_int(fp, nargs, 1, line)?.wrapping_add(1);
                let t = self.arg_or_nil(fp, nargs, 0);
                let v = self.index_slow(t, &Value::Int(i), line, None)?;
                if v.is_nil() {
                    self.ret1(fp, Value::Nil)
                } else {
                    self.ret(fp, &[Value::Int(i), v])
                }
            }
            Nat::Next => {
                let t = self.check_table(fp, nargs, 0, line)?;
                let k = self.arg_or_nil(fp, nargs, 1);
                match self.tables[t as usize].next(&k) {
                    Ok(Some((k, v))) => self.ret(fp, &[k, v]),
                    Ok(None) => self.ret1(fp, Value::Nil),
                    Err(()) => self.rt_error(0, "invalid key to 'next'".into()),
                }
            }
            Nat::Select => {
                if let Some(Value::Str(s)) = self.arg(fp, nargs, 0) {
                    if &s[..] == b"#" {
                        return self.ret1(fp, Value::Int(nargs as i64 - 1));
                    }
                }
                let n = self.check_int(fp, nargs, 0, line)?;
                let cnt = nargs as i64;
                let idx = if n < 0 { cnt + n } else if n > cnt { cnt } else { n };
                if idx < 1 {
                    return self.arg_error(line, 1, "index out of range");
                }
                self.stack.drain(fp..fp + 1 + idx as usize);
                Ok((cnt - idx) as usize)
            }
            Nat::Rawget => {
                let t = self.check_table(fp, nargs, 0, line)?;
                let k = self.check_any(fp, nargs, 1, line)?;
                let v = self.tables[t as usize].get(&k).clone();
                self.ret1(fp, v)
            }
            Nat::Rawset => {
                let t = self.check_table(fp, nargs, 0, line)?;
                let k = self.check_any(fp, nargs, 1, line)?;
                let v = self.check_any(fp, nargs, 2, line)?;
                let key = self.table_key(&k, line)?;
                self.tables[t as usize].set(key, v);
                self.ret1(fp, Value::Table(t))
            }
            Nat::Rawequal => {
                let a = self.check_any(fp, nargs, 0, line)?;
                let b = self.check_any(fp, nargs, 1, line)?;
                self.ret1(fp, Value::Bool(raw_equal(&a, &b)))
            }
            Nat::Rawlen => match self.arg(fp, nargs, 0) {
                Some(Value::Table(t)) => {
                    let n = self.tables[*t as usize].len();
                    self.ret1(fp, Value::Int(n))
                }
                Some(Value::Str(s)) => {
                    let n = s.len() as i64;
                    self.ret1(fp, Value::Int(n))
                }
                _ => self.arg_error(line, 1, "table or string expected"),
            },
            Nat::Setmetatable => {
                let t = self.check_table(fp, nargs, 0, line)?;
                let m = match self.arg(fp, nargs, 1) {
                    Some(Value::Nil) => NO_META,
                    Some(Value::Table(m)) => *m,
                    _ => return self.arg_error(line, 2, "nil or table expected"),
                };
                if self.metamethod(&Value::Table(t), MM_METATABLE).is_some() {
                    return self.lib_error(line, "cannot change a protected metatable".into());
                }
                self.tables[t as usize].meta = m;
                self.ret1(fp, Value::Table(t))
            }
            Nat::Getmetatable => {
                let v = self.check_any(fp, nargs, 0, line)?;
                if let Value::Str(_) = v {
                    self.ensure_string_meta();
                }
                let mt = match &v {
                    Value::Table(t) => self.tables[*t as usize].meta,
                    Value::Str(_) => self.string_meta,
                    _ => NO_META,
                };
                if mt == NO_META {
                    return self.ret1(fp, Value::Nil);
                }
                match self.metamethod(&v, MM_METATABLE) {
                    Some(p) => self.ret1(fp, p),
                    None => self.ret1(fp, Value::Table(mt)),
                }
            }
            Nat::Require => self.do_require(fp, nargs, line),
            Nat::Collectgarbage => self.ret1(fp, Value::Int(0)),
            _ => self.rt_error(line, "unknown builtin".into()),
        }
    }
}
