//! Interpreter state, run entry point, call machinery.
use crate::ast::*;
use crate::errors::*;
use crate::monitors::Monitors;
use crate::parser::GlobalTable;
use crate::value::*;
use crate::{Chunk, Counters, Event, LuaError, Options, Outcome, RunResult};
use std::rc::Rc;

pub const MM_INDEX: usize = 0;
pub const MM_NEWINDEX: usize = 1;
pub const MM_CALL: usize = 2;
pub const MM_EQ: usize = 3;
pub const MM_LT: usize = 4;
pub const MM_LE: usize = 5;
pub const MM_ADD: usize = 6;
pub const MM_SUB: usize = 7;
pub const MM_MUL: usize = 8;
pub const MM_DIV: usize = 9;
pub const MM_MOD: usize = 10;
pub const MM_IDIV: usize = 11;
pub const MM_POW: usize = 12;
pub const MM_UNM: usize = 13;
pub const MM_CONCAT: usize = 14;
pub const MM_LEN: usize = 15;
pub const MM_TOSTRING: usize = 16;
pub const MM_METATABLE: usize = 17;
pub const MM_BAND: usize = 18;
pub const MM_BOR: usize = 19;
pub const MM_BXOR: usize = 20;
pub const MM_SHL: usize = 21;
pub const MM_SHR: usize = 22;
pub const MM_BNOT: usize = 23;
pub const MM_NAME: usize = 24;
pub const MM_TYPE: usize = 25;
pub const MM_PAIRS: usize = 26;
pub const MM_N: usize = 27;
const MM_NAMES: [&str; 28] = [
    "__index", "__newindex", "__call", "__eq", "__lt", "__le", "__add", "__sub", "__mul", "__div", "__mod", "__idiv", "__pow", "__unm",
    "__concat", "__len", "__tostring", "__metatable", "__band", "__bor", "__bxor", "__shl", "__shr", "__bnot", "__name", "_type", "__pairs", "n",
];
/// Lua 5.3: LUAI_MAXCCALLS
pub const MAX_C_CALLS: u32 = 200;
/// nCcalls while the main chunk runs under lua.c (pmain + docall)
pub const BASE_C_CALLS: u32 = 2;

#[derive(Clone, Copy)]
pub(crate) struct Closure {
    pub proto: u32,
    pub up_start: u32,
    pub creator_act: u32,
}

#[allow(dead_code)]
pub(crate) struct FrameInfo {
    pub act: u32,
    pub line: u32,
    pub is_lua: bool,
    pub calls_returned: u32,
    pub creator: u32,
}

/// Per-activation data kept on the Rust stack.
pub(crate) struct Act {
    pub base: usize,
    pub va_start: usize,
    pub va_n: usize,
    pub up_start: usize,
    pub act: u32,
    pub fidx: usize,
}

pub(crate) enum Flow {
    Normal,
    Break,
    Return(usize),
    Goto(StrId),
}

pub struct GmatchState {
    pub src: LStr,
    pub pat: LStr,
    pub pos: usize,
    pub last_end: Option<usize>,
}

pub struct Interp<'c> {
    pub(crate) protos: Vec<&'c Proto>,
    pub(crate) consts: Vec<LStr>,
    pub(crate) chunks: Vec<&'c Chunk>,
    /// module name -> main proto id or load error
    pub(crate) modules: Vec<(String, Result<u32, crate::LoadError>)>,
    pub(crate) stack: Vec<Value>,
    pub(crate) tables: Vec<Table>,
    pub(crate) closures: Vec<Closure>,
    pub(crate) upvals: Vec<u32>,
    pub(crate) cells: Vec<Value>,
    pub(crate) globals: Vec<Value>,
    pub(crate) global_names: Vec<&'c str>,
    pub(crate) origins: Vec<Option<Origin>>,
    pub(crate) frames: Vec<FrameInfo>,
    pub(crate) mm: Vec<LStr>,
    pub(crate) steps: u64,
    pub(crate) max_steps: u64,
    pub(crate) depth: u32,
    pub(crate) c_depth: u32,
    pub(crate) next_act: u32,
    pub(crate) cur_line: u32,
    pub(crate) alloc: u64,
    pub(crate) stack_origin: usize,
    pub(crate) opts: &'c Options,
    pub(crate) prints: Vec<String>,
    pub(crate) write_buf: Vec<u8>,
    pub(crate) events: Vec<Event>,
    pub(crate) counters: Counters,
    pub(crate) mon: Monitors,
    pub(crate) string_meta: u32,
    pub(crate) string_lib: u32,
    pub(crate) callee_expr: Option<&'c Expr>,
    pub(crate) cur_native: u16,
    pub(crate) for_iter: bool,
    pub(crate) rng: u64,
    pub(crate) gmatch: Vec<GmatchState>,
    pub(crate) loaded: Vec<(String, Value)>,
    #[allow(dead_code)]
    pub(crate) marker_line: u32,
}

impl<'c> Interp<'c> {
    pub(crate) fn const_bytes(&self, id: u32) -> &[u8] {
        match self.consts.get(id as usize) {
            Some(s) => s,
            None => b"?",
        }
    }
    #[inline]
    pub(crate) fn step(&mut self) -> R<()> {
        self.steps += 1;
        if self.steps > self.max_steps {
            return budget("steps");
        }
        if self.alloc > self.opts.max_alloc_bytes {
            return budget("memory");
        }
        Ok(())
    }
    pub(crate) fn new_table(&mut self) -> u32 {
        self.alloc += 96;
        self.tables.push(Table::new());
        (self.tables.len() - 1) as u32
    }
    pub(crate) fn new_str(&mut self, b: &[u8]) -> Value {
        self.alloc += b.len() as u64 + 32;
        Value::Str(Rc::from(b))
    }
    pub(crate) fn type_name_of(&self, v: &Value) -> &'static str {
        v.type_name()
    }
    pub(crate) fn metamethod(&self, v: &Value, mm: usize) -> Option<Value> {
        let mt = match v {
            Value::Table(t) => self.tables[*t as usize].meta,
            Value::Str(_) => self.string_meta,
            _ => NO_META,
        };
        if mt == NO_META {
            return None;
        }
        let h = self.tables[mt as usize].get_str(&self.mm[mm]);
        if h.is_nil() {
            None
        } else {
            Some(h.clone())
        }
    }
    pub(crate) fn enter_c(&mut self, line: u32) -> R<()> {
        self.c_depth += 1;
        if self.c_depth >= MAX_C_CALLS {
            self.c_depth -= 1;
            return self.rt_error(line, "C stack overflow".to_string());
        }
        Ok(())
    }
    #[inline]
    pub(crate) fn leave_c(&mut self) {
        self.c_depth -= 1;
    }
    pub(crate) fn make_closure(&mut self, proto: u32, a: &Act) -> Value {
        let p = self.protos[proto as usize];
        let up_start = self.upvals.len() as u32;
        for u in &p.upvals {
            let cell = if u.from_parent_local {
                let pos = a.base + u.idx as usize;
                match self.stack[pos] {
                    Value::Cell(c) => c,
                    _ => {
                        let v = std::mem::replace(&mut self.stack[pos], Value::Nil);
                        self.cells.push(v);
                        let c = (self.cells.len() - 1) as u32;
                        self.stack[pos] = Value::Cell(c);
                        if self.opts.monitor_v {
                            self.mon.slot_to_cell(pos, c);
                        }
                        c
                    }
                }
            } else {
                self.upvals[a.up_start + u.idx as usize]
            };
            self.upvals.push(cell);
        }
        self.alloc += 32 + 8 * p.upvals.len() as u64;
        self.closures.push(Closure { proto, up_start, creator_act: a.act });
        if p.emitted {
            self.counters.closures_created += 1;
        }
        Value::Func((self.closures.len() - 1) as u32)
    }
    /// Call the value at stack[func_pos] with `nargs` arguments above it; results replace it.
    pub(crate) fn call_at(&mut self, func_pos: usize, nargs: usize, line: u32) -> R<usize> {
        self.counters.calls += 1;
        self.step()?;
        match self.stack[func_pos] {
            Value::Func(cid) => self.call_closure(cid, func_pos, nargs, line),
            Value::Native(id, payload) => {
                let saved = self.cur_native;
                self.cur_native = id;
                let r = self.call_native(id, payload, func_pos, nargs, line);
                self.cur_native = saved;
                self.callee_expr = None;
                r
            }
            _ => {
                let f = self.stack[func_pos].clone();
                match self.metamethod(&f, MM_CALL) {
                    Some(h) => {
                        self.stack.insert(func_pos, h);
                        self.enter_c(line)?;
                        let r = self.call_at(func_pos, nargs + 1, line);
                        self.leave_c();
                        r
                    }
                    None => self.type_error(line, "call", &f, String::new()),
                }
            }
        }
    }
    fn call_closure(&mut self, cid: u32, func_pos: usize, nargs: usize, line: u32) -> R<usize> {
        let cl = self.closures[cid as usize];
        let p: &'c Proto = self.protos[cl.proto as usize];
        if self.depth >= self.opts.max_depth {
            return budget("depth");
        }
        let probe = 0u8;
        let here = &probe as *const u8 as usize;
        if here.abs_diff(self.stack_origin) > self.opts.max_native_stack_bytes {
            return budget("depth");
        }
        let np = p.nparams as usize;
        let (base, va_start, va_n);
        if p.vararg {
            base = func_pos + 1 + nargs;
            for i in 0..np {
                let v = if i < nargs { self.stack[func_pos + 1 + i].clone() } else { Value::Nil };
                self.stack.push(v);
            }
            va_start = func_pos + 1 + np.min(nargs);
            va_n = nargs.saturating_sub(np);
        } else {
            base = func_pos + 1;
            va_start = base;
            va_n = 0;
        }
        self.stack.resize(base + (p.nslots as usize).max(np), Value::Nil);
        if self.stack.len() > 4_000_000 {
            return budget("memory");
        }
        let act_id = self.next_act;
        self.next_act += 1;
        if let Some(f) = self.frames.last_mut() {
            f.line = line;
        }
        let fidx = self.frames.len();
        self.frames.push(FrameInfo { act: act_id, line: p.line, is_lua: true, calls_returned: 0, creator: cl.creator_act });
        self.depth += 1;
        if self.depth > self.counters.max_depth {
            self.counters.max_depth = self.depth;
        }
        let a = Act { base, va_start, va_n, up_start: cl.up_start as usize, act: act_id, fidx };
        if self.opts.monitor_v {
            self.mon_enter(p, &a, cl.creator_act);
        }
        let saved_callee = self.callee_expr.take();
        self.for_iter = false;
        let r = self.exec_block(&p.body, &a);
        self.depth -= 1;
        self.frames.truncate(fidx);
        let _ = saved_callee;
        if self.opts.monitor_v {
            self.mon.exit_act(act_id);
        }
        self.cur_line = line;
        if let Some(f) = self.frames.last_mut() {
            f.calls_returned += 1;
        }
        match r {
            Ok(Flow::Return(n)) => {
                let start = self.stack.len() - n;
                self.stack.drain(func_pos..start);
                Ok(n)
            }
            Ok(_) => {
                self.stack.truncate(func_pos);
                Ok(0)
            }
            Err(mut e) => {
                if let Unwind::Error { traceback, .. } = &mut *e {
                    if traceback.len() < 64 && line != 0 {
                        traceback.push(line);
                    }
                }
                Err(e)
            }
        }
    }
    /// Call `f` with `args` from native code (one C level); returns the first result.
    pub(crate) fn call_value1(&mut self, f: &Value, args: &[Value], line: u32) -> R<Value> {
        let pos = self.stack.len();
        self.stack.push(f.clone());
        for a in args {
            self.stack.push(a.clone());
        }
        self.enter_c(line)?;
        let saved = self.callee_expr.take();
        let r = self.call_at(pos, args.len(), line);
        self.callee_expr = saved;
        self.leave_c();
        let n = r?;
        let v = if n > 0 { std::mem::replace(&mut self.stack[pos], Value::Nil) } else { Value::Nil };
        self.stack.truncate(pos);
        Ok(v)
    }
    /// Marks that native code (not Lua code) is the caller for position purposes.
    pub(crate) fn push_c_frame(&mut self) {
        self.frames.push(FrameInfo { act: 0, line: 0, is_lua: false, calls_returned: 0, creator: 0 });
    }
    pub(crate) fn emit(&mut self, e: Event) {
        if self.events.len() < 1000 {
            self.events.push(e);
        }
    }
    pub(crate) fn flush_write(&mut self) {
        if !self.write_buf.is_empty() {
            let s = String::from_utf8_lossy(&self.write_buf).to_string();
            self.write_buf.clear();
            self.prints.push(s);
        }
    }
}

fn finish(mut it: Interp, r: R<usize>) -> RunResult {
    it.flush_write();
    let outcome = match r {
        Ok(_) => Outcome::Ok,
        Err(e) => match *e {
            Unwind::Budget(w) => Outcome::Budget(w),
            Unwind::Error { value, line, origin, traceback } => {
                it.c_depth = BASE_C_CALLS;
                it.depth = 0;
                let msg = it.error_value_text(&value);
                let class = classify_with_origin(&msg, origin);
                Outcome::Error(LuaError { msg, line, class, traceback })
            }
        },
    };
    RunResult { prints: std::mem::take(&mut it.prints), outcome, events: std::mem::take(&mut it.events), counters: it.counters.clone(), steps: it.steps }
}

pub fn run_chunk(chunk: &Chunk, opts: &Options) -> RunResult {
    let r = std::panic::catch_unwind(std::panic::AssertUnwindSafe(|| run_inner(chunk, opts)));
    match r {
        Ok(r) => r,
        Err(_) => RunResult {
            prints: Vec::new(),
            outcome: Outcome::Error(LuaError { msg: "luamon internal error (panic)".into(), line: 0, class: crate::ErrClass::Other("luamon internal error (panic)".into()), traceback: Vec::new() }),
            events: Vec::new(),
            counters: Counters::default(),
            steps: 0,
        },
    }
}

fn run_inner(chunk: &Chunk, opts: &Options) -> RunResult {
    // modules are parsed up front (only when the chunk can reach `require` at all) so that all ASTs outlive the interpreter
    let mut mods: Vec<(String, Result<Chunk, crate::LoadError>)> = Vec::new();
    if chunk.uses_require && !opts.modules.is_empty() {
        let mut gt = GlobalTable::default();
        for n in &chunk.globals {
            gt.gid(n.as_bytes());
        }
        let mut sb = chunk.strings.len() as u32;
        let mut pb = chunk.protos.len() as u32;
        for (name, src) in &opts.modules {
            let r = crate::load_with(src, &mut gt, sb, pb);
            if let Ok(c) = &r {
                sb += c.strings.len() as u32;
                pb += c.protos.len() as u32;
            }
            mods.push((name.clone(), r));
        }
    }
    let probe = 0u8;
    let mut it = Interp {
        protos: Vec::new(),
        consts: Vec::new(),
        chunks: vec![chunk],
        modules: Vec::new(),
        stack: Vec::with_capacity(256),
        tables: Vec::with_capacity(64),
        closures: Vec::with_capacity(128),
        upvals: Vec::new(),
        cells: Vec::new(),
        globals: Vec::new(),
        global_names: Vec::new(),
        origins: Vec::new(),
        frames: Vec::with_capacity(32),
        mm: MM_NAMES.iter().map(|s| Rc::from(s.as_bytes())).collect(),
        steps: 0,
        max_steps: opts.max_steps,
        depth: 0,
        c_depth: BASE_C_CALLS,
        next_act: 1,
        cur_line: 0,
        alloc: 0,
        stack_origin: &probe as *const u8 as usize,
        opts,
        prints: Vec::new(),
        write_buf: Vec::new(),
        events: Vec::new(),
        counters: Counters::default(),
        mon: Monitors::default(),
        string_meta: NO_META,
        string_lib: NO_META,
        callee_expr: None,
        cur_native: 0,
        for_iter: false,
        rng: 0x2545F4914F6CDD1D,
        gmatch: Vec::new(),
        loaded: Vec::new(),
        marker_line: chunk.census.marker_line,
    };
    it.add_chunk(chunk);
    for (name, r) in &mods {
        match r {
            Ok(c) => {
                it.chunks.push(c);
                it.add_chunk(c);
                it.modules.push((name.clone(), Ok(c.main)));
            }
            Err(e) => it.modules.push((name.clone(), Err(e.clone()))),
        }
    }
    it.install_builtins();
    it.frames.push(FrameInfo { act: 0, line: 0, is_lua: false, calls_returned: 0, creator: 0 });
    let main = Act { base: 0, va_start: 0, va_n: 0, up_start: 0, act: 0, fidx: 0 };
    let f = it.make_closure(chunk.main, &main);
    it.stack.push(f);
    let r = it.call_at(0, 0, 0);
    finish(it, r)
}

impl<'c> Interp<'c> {
    fn add_chunk(&mut self, c: &'c Chunk) {
        for p in &c.protos {
            self.protos.push(p);
        }
        for s in &c.strings {
            self.consts.push(Rc::from(&s[..]));
        }
        for n in &c.globals {
            self.global_names.push(n.as_str());
            self.globals.push(Value::Nil);
        }
        self.origins.extend(c.origins.iter().cloned());
        while self.origins.len() < self.globals.len() {
            self.origins.push(None);
        }
    }
}
