//! Native function registry, argument helpers, installation of globals, base library (part 1).
use crate::errors::*;
use crate::interp::*;
use crate::numfmt::Numeral;
use crate::value::*;

macro_rules! natives {
    ($($v:ident = $name:expr),* $(,)?) => {
        #[derive(Clone, Copy, Debug, PartialEq, Eq)]
        #[repr(u16)]
        pub enum Nat { $($v),* }
        pub const NATS: &[Nat] = &[$(Nat::$v),*];
        pub const NAT_NAMES: &[&str] = &[$($name),*];
    };
}

natives! {
    Assert = "assert", Error = "error", Pcall = "pcall", Xpcall = "xpcall", Print = "print", Type = "type",
    Tostring = "tostring", Tonumber = "tonumber", Pairs = "pairs", Ipairs = "ipairs", IpairsAux = "ipairs_iterator", Next = "next",
    Select = "select", Rawget = "rawget", Rawset = "rawset", Rawequal = "rawequal", Rawlen = "rawlen",
    Setmetatable = "setmetatable", Getmetatable = "getmetatable", Unpack = "unpack", Require = "require",
    Collectgarbage = "collectgarbage",
    TInsert = "table.insert", TRemove = "table.remove", TConcat = "table.concat", TUnpack = "table.unpack",
    TPack = "table.pack", TSort = "table.sort",
    SByte = "string.byte", SChar = "string.char", SLen = "string.len", SSub = "string.sub", SRep = "string.rep",
    SReverse = "string.reverse", SLower = "string.lower", SUpper = "string.upper", SFormat = "string.format",
    SFind = "string.find", SGmatch = "string.gmatch", SGmatchAux = "gmatch_iterator", SGsub = "string.gsub", SMatch = "string.match",
    MFloor = "math.floor", MCeil = "math.ceil", MAbs = "math.abs", MMax = "math.max", MMin = "math.min",
    MSqrt = "math.sqrt", MSin = "math.sin", MCos = "math.cos", MTan = "math.tan", MAsin = "math.asin",
    MAcos = "math.acos", MAtan = "math.atan", MAtan2 = "math.atan2", MPow = "math.pow", MExp = "math.exp",
    MLog = "math.log", MFmod = "math.fmod", MModf = "math.modf", MTointeger = "math.tointeger", MType = "math.type",
    MRandom = "math.random", MRandomseed = "math.randomseed", MUlt = "math.ult", MCosh = "math.cosh",
    MSinh = "math.sinh", MTanh = "math.tanh", MLog10 = "math.log10", MLdexp = "math.ldexp", MFrexp = "math.frexp",
    MDeg = "math.deg", MRad = "math.rad",
    OTime = "os.time", OClock = "os.clock", OGetenv = "os.getenv", ODate = "os.date", IWrite = "io.write", IRead = "io.read",
}

pub fn native_name(id: u16) -> &'static str {
    match NAT_NAMES.get(id as usize) {
        Some(n) => n,
        None => "?",
    }
}

fn nat(n: Nat) -> Value {
    Value::Native(n as u16, 0)
}

const STRING_LIB: &[(&str, Nat)] = &[
    ("byte", Nat::SByte), ("char", Nat::SChar), ("len", Nat::SLen), ("sub", Nat::SSub), ("rep", Nat::SRep),
    ("reverse", Nat::SReverse), ("lower", Nat::SLower), ("upper", Nat::SUpper), ("format", Nat::SFormat),
    ("find", Nat::SFind), ("gmatch", Nat::SGmatch), ("gsub", Nat::SGsub), ("match", Nat::SMatch),
];
const TABLE_LIB: &[(&str, Nat)] = &[
    ("insert", Nat::TInsert), ("remove", Nat::TRemove), ("concat", Nat::TConcat), ("unpack", Nat::TUnpack),
    ("pack", Nat::TPack), ("sort", Nat::TSort),
];
const MATH_LIB: &[(&str, Nat)] = &[
    ("floor", Nat::MFloor), ("ceil", Nat::MCeil), ("abs", Nat::MAbs), ("max", Nat::MMax), ("min", Nat::MMin),
    ("sqrt", Nat::MSqrt), ("sin", Nat::MSin), ("cos", Nat::MCos), ("tan", Nat::MTan), ("asin", Nat::MAsin),
    ("acos", Nat::MAcos), ("atan", Nat::MAtan), ("atan2", Nat::MAtan2), ("pow", Nat::MPow), ("exp", Nat::MExp),
    ("log", Nat::MLog), ("fmod", Nat::MFmod), ("modf", Nat::MModf), ("tointeger", Nat::MTointeger), ("type", Nat::MType),
    ("random", Nat::MRandom), ("randomseed", Nat::MRandomseed), ("ult", Nat::MUlt), ("cosh", Nat::MCosh),
    ("sinh", Nat::MSinh), ("tanh", Nat::MTanh), ("log10", Nat::MLog10), ("ldexp", Nat::MLdexp), ("frexp", Nat::MFrexp),
    ("deg", Nat::MDeg), ("rad", Nat::MRad),
];
const OS_LIB: &[(&str, Nat)] = &[("time", Nat::OTime), ("clock", Nat::OClock), ("getenv", Nat::OGetenv), ("date", Nat::ODate)];
const IO_LIB: &[(&str, Nat)] = &[("write", Nat::IWrite), ("read", Nat::IRead)];

impl<'c> Interp<'c> {
    fn make_lib(&mut self, entries: &[(&str, Nat)]) -> u32 {
        let t = self.new_table();
        for (name, n) in entries {
            let k = Key::Str(std::rc::Rc::from(name.as_bytes()));
            self.tables[t as usize].set(k, nat(*n));
        }
        t
    }
    fn set_field(&mut self, t: u32, name: &str, v: Value) {
        let k = Key::Str(std::rc::Rc::from(name.as_bytes()));
        self.tables[t as usize].set(k, v);
    }
    pub(crate) fn ensure_string_lib(&mut self) -> u32 {
        if self.string_lib == NO_META {
            self.string_lib = self.make_lib(STRING_LIB);
        }
        self.string_lib
    }
    pub(crate) fn ensure_string_meta(&mut self) -> u32 {
        if self.string_meta == NO_META {
            let lib = self.ensure_string_lib();
            let m = self.new_table();
            let k = Key::Str(self.mm[MM_INDEX].clone());
            self.tables[m as usize].set(k, Value::Table(lib));
            self.string_meta = m;
        }
        self.string_meta
    }
    /// Give every global name that denotes a library function / table its value.
    pub(crate) fn install_builtins(&mut self) {
        for gid in 0..self.global_names.len() {
            if !self.globals[gid].is_nil() {
                continue;
            }
            let v = match self.global_names[gid] {
                "assert" => nat(Nat::Assert),
                "error" => nat(Nat::Error),
                "pcall" => nat(Nat::Pcall),
                "xpcall" => nat(Nat::Xpcall),
                "print" => nat(Nat::Print),
                "type" => nat(Nat::Type),
                "tostring" => nat(Nat::Tostring),
                "tonumber" => nat(Nat::Tonumber),
                "pairs" => nat(Nat::Pairs),
                "ipairs" => nat(Nat::Ipairs),
                "next" => nat(Nat::Next),
                "select" => nat(Nat::Select),
                "rawget" => nat(Nat::Rawget),
                "rawset" => nat(Nat::Rawset),
                "rawequal" => nat(Nat::Rawequal),
                "rawlen" => nat(Nat::Rawlen),
                "setmetatable" => nat(Nat::Setmetatable),
                "getmetatable" => nat(Nat::Getmetatable),
                "unpack" => nat(Nat::Unpack),
                "require" => nat(Nat::Require),
                "collectgarbage" => nat(Nat::Collectgarbage),
                "_VERSION" => Value::str(b"Lua 5.3"),
                "string" => Value::Table(self.ensure_string_lib()),
                "table" => Value::Table(self.make_lib(TABLE_LIB)),
                "math" => {
                    let t = self.make_lib(MATH_LIB);
                    self.set_field(t, "huge", Value::Num(f64::INFINITY));
                    self.set_field(t, "pi", Value::Num(std::f64::consts::PI));
                    self.set_field(t, "maxinteger", Value::Int(i64::MAX));
                    self.set_field(t, "mininteger", Value::Int(i64::MIN));
                    Value::Table(t)
                }
                "os" => Value::Table(self.make_lib(OS_LIB)),
                "io" => Value::Table(self.make_lib(IO_LIB)),
                _ => continue,
            };
            self.globals[gid] = v;
        }
    }

    // ---- argument helpers (i is 0-based) ------------------------------------------------
    #[inline]
    pub(crate) fn arg(&self, fp: usize, nargs: usize, i: usize) -> Option<&Value> {
        if i < nargs {
            self.stack.get(fp + 1 + i)
        } else {
            None
        }
    }
    pub(crate) fn arg_or_nil(&self, fp: usize, nargs: usize, i: usize) -> Value {
        self.arg(fp, nargs, i).cloned().unwrap_or(Value::Nil)
    }
    pub(crate) fn check_any(&mut self, fp: usize, nargs: usize, i: usize, line: u32) -> R<Value> {
        match self.arg(fp, nargs, i) {
            Some(v) => Ok(v.clone()),
            None => self.arg_error(line, i + 1, "value expected"),
        }
    }
    pub(crate) fn check_table(&mut self, fp: usize, nargs: usize, i: usize, line: u32) -> R<u32> {
        match self.arg(fp, nargs, i) {
            Some(Value::Table(t)) => Ok(*t),
            other => {
                let o = other.cloned();
                self.arg_type_error(line, i + 1, "table", o.as_ref())
            }
        }
    }
    pub(crate) fn check_int(&mut self, fp: usize, nargs: usize, i: usize, line: u32) -> R<i64> {
        let v = self.arg(fp, nargs, i).cloned();
        match &v {
            Some(Value::Int(n)) => Ok(*n),
            Some(x @ (Value::Num(_) | Value::Str(_))) => match Self::to_number(x) {
                Some(Numeral::Int(n)) => Ok(n),
                Some(Numeral::Flt(f)) => match f64_to_i64_exact(f) {
                    Some(n) => Ok(n),
                    None => self.arg_error(line, i + 1, "number has no integer representation"),
                },
                None => self.arg_type_error(line, i + 1, "number", v.as_ref()),
            },
            _ => self.arg_type_error(line, i + 1, "number", v.as_ref()),
        }
    }
    pub(crate) fn opt_int(&mut self, fp: usize, nargs: usize, i: usize, line: u32, def: i64) -> R<i64> {
        match self.arg(fp, nargs, i) {
            None | Some(Value::Nil) => Ok(def),
            _ => self.check_int(fp, nargs, i, line),
        }
    }
    pub(crate) fn check_num(&mut self, fp: usize, nargs: usize, i: usize, line: u32) -> R<f64> {
        let v = self.arg(fp, nargs, i).cloned();
        match v.as_ref().and_then(Self::to_number) {
            Some(Numeral::Int(n)) => Ok(n as f64),
            Some(Numeral::Flt(f)) => Ok(f),
            None => self.arg_type_error(line, i + 1, "number", v.as_ref()),
        }
    }
    /// luaL_checknumber keeping the subtype
    pub(crate) fn check_numeral(&mut self, fp: usize, nargs: usize, i: usize, line: u32) -> R<Numeral> {
        let v = self.arg(fp, nargs, i).cloned();
        match v.as_ref().and_then(Self::to_number) {
            Some(n) => Ok(n),
            None => self.arg_type_error(line, i + 1, "number", v.as_ref()),
        }
    }
    /// luaL_checklstring: strings, and numbers converted to strings
    pub(crate) fn check_str(&mut self, fp: usize, nargs: usize, i: usize, line: u32) -> R<LStr> {
        let v = self.arg(fp, nargs, i).cloned();
        match &v {
            Some(Value::Str(s)) => Ok(s.clone()),
            Some(Value::Int(n)) => Ok(std::rc::Rc::from(crate::numfmt::tostring_number_i64(*n).as_bytes())),
            Some(Value::Num(f)) => Ok(std::rc::Rc::from(crate::numfmt::tostring_number_f64(*f).as_bytes())),
            _ => self.arg_type_error(line, i + 1, "string", v.as_ref()),
        }
    }
    #[inline]
    pub(crate) fn ret(&mut self, fp: usize, vals: &[Value]) -> R<usize> {
        self.stack.truncate(fp);
        self.stack.extend_from_slice(vals);
        Ok(vals.len())
    }
    #[inline]
    pub(crate) fn ret1(&mut self, fp: usize, v: Value) -> R<usize> {
        self.stack.truncate(fp);
        self.stack.push(v);
        Ok(1)
    }

    pub(crate) fn call_native(&mut self, id: u16, payload: u32, fp: usize, nargs: usize, line: u32) -> R<usize> {
        let n = match NATS.get(id as usize) {
            Some(n) => *n,
            None => return self.rt_error(line, "unknown builtin".into()),
        };
        use Nat::*;
        match n {
            Assert | Error | Pcall | Xpcall | Print | Type | Tostring | Tonumber | Pairs | Ipairs | IpairsAux | Next | Select | Rawget | Rawset
            | Rawequal | Rawlen | Setmetatable | Getmetatable | Require | Collectgarbage => self.base_native(n, fp, nargs, line),
            Unpack | TInsert | TRemove | TConcat | TUnpack | TPack | TSort | OTime | OClock | OGetenv | ODate | IWrite | IRead => self.table_native(n, fp, nargs, line),
            SByte | SChar | SLen | SSub | SRep | SReverse | SLower | SUpper | SFormat | SFind | SGmatch | SGmatchAux | SGsub | SMatch => {
                self.string_native(n, payload, fp, nargs, line)
            }
            _ => self.math_native(n, fp, nargs, line),
        }
    }
}
