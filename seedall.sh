#!/bin/bash
# ./seedall.sh [round]   run every stored seeded change against its own property's quick check
# (plus the extra checks listed in seeded/<id>/also) and print one line per (seed, check).
cd /verif || exit 2
for d in seeded/C??-r${1:-*}; do
  id=$(basename $d); prop=${id%%-*}
  extra=""; [ -f $d/also ] && extra=$(cat $d/also)
  echo -n "$id -> "
  ./seedtest.sh /verif/$d/patch.diff $prop $extra | tr '\n' ';' | cut -c1-400
  echo
done
