#!/opt/veriftools/pyvenv/bin/python
import json,jsonschema,sys,glob
m=json.load(open('/verif/MANIFEST.json')); jsonschema.validate(m,json.load(open('/root/.vp/MANIFEST.schema.json')))
s=json.load(open('/root/.vp/EVIDENCE.schema.json'))
for f in sorted(glob.glob('/verif/evidence/*.json')):
    e=json.load(open(f)); jsonschema.validate(e,s); print(f, 'ok', e['tier'], e['coverage']['evaluations'], e['coverage']['distinct_nontrivial'])
props=[json.loads(l)['id'] for l in open('/verif/properties.jsonl')]
claimed=[c['property_id'] for c in m['checks']]; na=[c['property_id'] for c in m.get('not_applicable',[])]
print('claimed',len(claimed),'na',len(na),'missing',[p for p in props if p not in claimed and p not in na])
