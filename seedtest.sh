#!/bin/bash
# ./seedtest.sh <patch.diff> <Cnn> [<Cnn> ...]   apply a seeded change to /repo, run the quick checks, undo.
# Prints one line per check: CAUGHT / missed / inconclusive.
set -u
patch="$1"; shift
cd /repo || exit 2
if ! git diff --quiet; then echo "refusing: /repo has uncommitted changes"; exit 2; fi
if ! git apply --check "$patch" 2>/dev/null; then echo "patch does not apply"; exit 2; fi
git apply "$patch"
for id in "$@"; do
  out=$(cd /verif && VERIF_SEED=${VERIF_SEED:-1} ./check "$id" "${TIER:-quick}" 2>&1)
  rc=$?
  sig=$(echo "$out" | grep -m3 "signature:" | tr '\n' ' ')
  case $rc in
    1) echo "$id CAUGHT rc=1 $sig" ;;
    0) echo "$id missed rc=0" ;;
    *) echo "$id inconclusive rc=$rc $(echo "$out" | grep -m2 INCONCLUSIVE | tr '\n' ' ')" ;;
  esac
done
git checkout -- . ; git clean -fdq -- . 2>/dev/null; for id in "$@"; do rm -rf /verif/replays/$id; done
(cd /verif && ./check build >/dev/null 2>&1)
